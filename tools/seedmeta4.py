#!/usr/bin/env python3
"""Fills meta.json (what / needs / detected_by / ran) of the round-4 seeded changes (ids Cnn-G, Cnn-H).
what/needs summarise each author's notes (seeded/round4_summaries.json); detected_by records what was observed
here with tools/try_seed.py. `--table` prints the DESIGN.md table."""
import json, os, sys
ROOT = os.path.dirname(os.path.dirname(os.path.abspath(__file__)))
summ = json.load(open(os.path.join(ROOT, "seeded", "round4_summaries.json")))
Q = "quick"
DET = {
 "C01-G": {"C01": "quick (sub-check ladders with the wide-conflict family, added after this change was missed: a conflict collecting more than 10 000 literals)", "C06": "quick (long-learned-clauses)"},
 "C01-H": {"C01": "quick (cutting-planes strategy in the conflict-rich families with lowered limits, added after this change was missed)"},
 "C02-G": {"C02": Q},
 "C02-H": {"C02": Q},
 "C03-G": {"C03": "quick (a quarter of the cases under the cutting-planes strategy, added for this change)"},
 "C03-H": {"C03": Q},
 "C04-G": {"C04": "quick (sub-checks many-soft-api / many-soft-wcnf, added after this change was missed: bounds over more than 32 literals)"},
 "C04-H": {"C04": Q},
 "C05-G": {"C05": "quick (sub-check card-fan, added after this change was missed)"},
 "C05-H": {"C05": Q},
 "C06-G": {"C06": Q},
 "C06-H": {"C06": "quick (sub-check long-odd-clauses, added after this change was missed)", "C01": "quick (same family)"},
 "C07-G": {"C07": "quick (tautological clauses in duplicate-literals, added for this change)"},
 "C07-H": {"C07": "quick (explicit empty clauses in duplicate-literals, added for this change)"},
 "C08-G": {"C08": Q},
 "C08-H": {"C08": "quick (problems with an explicit empty clause, added after this change was missed)"},
 "C09-G": {"C09": Q},
 "C09-H": {"C09": Q},
 "C10-G": {"C10": "quick (sub-checks card-base / pb-base, added for this change: the bases were pure CNF before)"},
 "C10-H": {"C10": "quick (same sub-checks)"},
 "C11-G": {"C11": Q},
 "C11-H": {"C11": Q},
 "C12-G": {"C12": "quick (the variable named \"\", added for this change)"},
 "C12-H": {"C12": Q},
 "C13-G": {"C13": Q},
 "C13-H": {"C13": "quick (the value returned by Optimal with a result channel, added for this change)", "C04": "quick"},
 "C14-G": {"C14": Q},
 "C14-H": {"C14": Q},
 "C15-G": {"C15": Q},
 "C15-H": {"C15": Q},
 "C16-G": {"C16": "quick at seed 1 (fresh-process rounds with a certificate consumer that starts after 3.3 s, added after this change was missed; one round in twelve in the quick tier, one in four in the thorough tier: the goroutine only reads at its 3-second tick)"},
 "C16-H": {"C16": "quick (task cp-solve-wide, 260..340 variables, added after this change was missed)"},
 "C17-G": {"C17": Q},
 "C17-H": {"C17": "quick (texts delivered through readers of several kinds, among them one that returns the last bytes together with io.EOF, added for this change)"},
 "C18-G": {"C18": "not examined, by decision 28: the demonstration needs a cardinality constraint that holds x and its negation, which is outside every domain (C02's precondition; the unchanged tree indexes out of range on such constraints elsewhere)"},
 "C18-H": {"C18": Q},
 "C19-G": {"C19": Q},
 "C19-H": {"C19": "quick (.bf files with exactly-one groups of 10..30 names, added for this change)"},
 "C20-G": {"C20": Q},
 "C20-H": {"C20": Q},
}
for sid, det in DET.items():
    p = os.path.join(ROOT, "seeded", sid, "meta.json")
    m = json.load(open(p))
    m["what"], m["needs"] = summ[sid]["what"], summ[sid]["needs"]
    m["detected_by"] = det
    m["ran"] = "tools/confirm_seed.py (demo passes on HEAD, existing suite passes with the change, demo fails with it) then tools/try_seed.py <patch> --props <ID> [--seed N] (= VERIF_REPO=<scratch worktree with the change> ./check <ID>)"
    json.dump(m, open(p, "w"), indent=1)
print(len(DET), "meta.json files written")
if "--table" in sys.argv:
    for sid in sorted(DET):
        m = json.load(open(os.path.join(ROOT, "seeded", sid, "meta.json")))
        det = "; ".join(f"{k}: {v}" for k, v in m["detected_by"].items())
        print(f"| {sid} | {m['what']} | {m['needs']} | {det} |")
