#!/usr/bin/env python3
"""Regenerates /verif/MANIFEST.json from the table below (run after adding a check)."""
import json, os, subprocess
ROOT = os.path.dirname(os.path.dirname(os.path.abspath(__file__)))
props = [json.loads(l) for l in open(os.path.join(ROOT, "properties.jsonl"))]
# id -> (technique, level text, level note, design ref)
CLAIMED = {
 "C01": ("exhaustive enumeration of tiny CNF spaces + rapid property-based generation (small, parity/pigeonhole, threshold 3-SAT) against a truth-table / DPLL / independent RUP-replay oracle",
         "Every ordered clause list of the tiny spaces named in the evidence is enumerated completely (exhaustive sub-check); beyond that, generated formulas up to 160 variables x {3 entry points} x {certificate on/off} x {learned-clause limit default or lowered via the verif hook} are solved and each answer is validated independently: truth table up to 20 variables, DPLL up to 60, model evaluation and replay of the refutation by a from-scratch RUP checker above. Exploration: held on everything generated; classes (conflicts, clause deletion, restarts) are measured and floored.",
         "Trusts harness/oracle (truth table, DPLL, RUP checker). Lowered learned-clause limit is always > number of variables (see DESIGN 2.1). Activity rescaling (>1e30) is not reached.",
         "DESIGN.md 4/C01"),
 "C02": ("rapid property-based generation of cardinality/PB constraint sets through both public front-ends, integer-arithmetic truth-table oracle over the constraints as written",
         "Generated constraint sets (n<=10, coefficients of either sign incl. 0, degrees from below the minimum to above the maximum, relations >=,<=,=, unit constraints mixed in) are solved and verdict + model are compared with integer arithmetic over all 2^n assignments. Exploration with measured class distribution and a non-triviality floor.",
         "Precondition kept from the statement: each variable at most once per constraint; LtEq/Eq always get explicit weights. Trusts oracle.Constr evaluation.",
         "DESIGN.md 4/C02"),
 "C03": ("rapid generation of (constraint set, cost function) pairs incl. covering-style instances and OPB objectives with negative coefficients; brute-force minimum oracle; three entry points compared",
         "Every generated instance is optimised through Optimal(nil), Optimal(chan) and Minimize+Model on fresh solvers; status, model validity, reported cost = cost function on the model = brute-force minimum are asserted. Covering-style generators make the search perform several strengthening rounds (measured: stream length >=2).",
         "Cost literals are restricted to variables of the problem (precondition of SetCostFunc observed from callers). Minimize's -1 convention is only checked for non-negative costs.",
         "DESIGN.md 4/C03"),
 "C04": ("rapid generation of weighted partial MaxSAT instances through the constraint API (each built and solved 3 times: map-ordered cost function) and as WCNF text; brute-force oracle",
         "hard-unsat <=> nil model / Unsat; otherwise the returned assignment satisfies the hard constraints, has exactly the user's variables (API) / the declared variable count (WCNF), and reported cost = weight of violated soft constraints = brute-force minimum.",
         "Positive coefficients only; WCNF clauses one per line (DESIGN 7.6). Trusts the brute-force evaluator.",
         "DESIGN.md 4/C04"),
 "C05": ("rapid generation of CNF/cardinality/PB problems with forced corner classes; truth-table model set vs CountModels, Enumerate(nil), Enumerate(chan) (multiset equality of delivered models)",
         "All three counting entry points, each on a fresh solver, must equal the truth-table count over the declared variables, and the channel must deliver every satisfying total assignment exactly once and be closed.",
         "n <= 10 so that the model set is enumerable. Trusts the truth table.",
         "DESIGN.md 4/C05"),
 "C09": ("stateful property-based testing: generated histories (Solve | AppendClause of clause/cardinality/PB constraint) with oracle-aimed additions, invariant checked after every Solve against a truth table of the whole conjunction; whole history shrinks as one value",
         "After every Solve of a generated history the verdict equals the truth table of base AND all additions, the model satisfies the conjunction, and Unsat is permanent. Additions are aimed (entailed / contradictory / against a model / new variables) by the harness's own oracle.",
         "Total variables <= 10; card/PB additions over distinct variables with positive weights. Histories mixing AppendClause with Assume are outside the property.",
         "DESIGN.md 4/C09"),
 "C10": ("stateful property-based testing: generated sequences of assumption rounds (repeated, self-contradicting, contradicting facts / the previous round) on small and conflict-rich bases; per-round truth-table oracle",
         "Each round's verdict must equal satisfiability of base AND that round's assumptions only; Sat models must satisfy every base clause (unit clauses included) and all current assumptions; Assume returning Unsat must be justified.",
         "n <= 20 (truth table per round). Bases are CNF via ParseSliceNb.",
         "DESIGN.md 4/C10"),
 "C06": ("rapid generation of CNF formulas (small odd shapes, parity/pigeonhole, threshold 3-SAT) x certificate channel mode x lowered learned-clause limit; every emitted trace replayed by an independent RUP checker (literal-set semantics); differential with certification off",
         "Unsat: each line must be RUP w.r.t. the formula and earlier lines and the empty clause RUP-derivable at the end; Sat: each line a consequence (truth table / RUP / DPLL); verdict and model validity identical with certification off.",
         "Trusts oracle.RUP, truth table and DPLL. 'Empty clause derivable' is checked as derivability, not as the presence of a '0' line.",
         "DESIGN.md 4/C06"),
 "C07": ("rapid generation of structured unsat/sat CNF (cores + padding, disjoint/overlapping cores, pigeonhole, repeated clauses) x 4 extraction methods called twice; truth-table MUS predicates",
         "Result must be a sub-multiset of the input, unsatisfiable, and minimal (every single-clause removal satisfiable); satisfiable input => error and nil; the receiver must be deep-equal before and after.",
         "Problems are built through explain.ParseCNF with a matching header; clauses over distinct variables (DESIGN 7.5).",
         "DESIGN.md 4/C07"),
 "C08": ("rapid generation of (problem, certificate) pairs: genuine solver traces, mutated traces (literal dropped/flipped, line deleted, lines swapped), random clauses, non-RUP consequences, non-consequences; both entry points; truth-table entailment + independent RUP oracle",
         "Asserts exactly the stated directions: valid => every examined line is a consequence; all lines RUP => valid; problem unchanged and same answer on re-check; UnsatSubset: sub-multiset and unsat, error on sat input. Valid/invalid split is measured and floored.",
         "Certificate literals stay within the declared variables. Lines that are consequences but not RUP may go either way.",
         "DESIGN.md 4/C08"),
 "C11": ("rapid generation of formula trees (all connectives, empty and/or, constants, exactly-one groups of 1..9 names, every polarity) against an own evaluator over all assignments",
         "nil <=> unsatisfiable; otherwise the returned assignment completed in every way on omitted names satisfies the formula. One open known finding (negated exactly-one group of more than 4 names) is reported by witness and signature; everything else is a violation.",
         "Names <= 14. A failure on a formula containing a >4-name group at non-positive polarity is attributed to the open finding c11-negated-big-unique (sub-check trees-any-polarity); the main sub-check places such groups only positively.",
         "DESIGN.md 4/C11"),
 "C12": ("rapid generation of formula trees; the exported DIMACS bytes are parsed by an own strict reader and all models of the exported CNF are enumerated; two-directional model comparison through the name table",
         "Well-formedness (header counts, literal range, name table with distinct in-range indices of known names) and exact model correspondence: every export model restricted and extended over eliminated names satisfies the formula, every formula model extends to an export model.",
         "Exports with more than 20 variables are skipped as inconclusive (counted). Exactly-one groups of >4 names only at positive polarity, as the property states.",
         "DESIGN.md 4/C12"),
 "C13": ("semantic object -> text through own writers with layout knobs (rapid-generated), parsed by the four readers; oracle: problem evaluator on exported data vs truth table, clause-list equality (explain), brute-force optimum and pinned-assignment costs (OPB/WCNF); thorough adds native go fuzzing of the knob vectors",
         "For each generated text the parsed problem must have exactly the text's models (and, for OPB/WCNF, the text's cost for the optimum and for pinned assignments); no error, no panic. Only layouts the published formats allow are produced (no tabs in OPB/WCNF, one WCNF clause per line).",
         "Writers in harness/texts define what each text means; DESIGN 7.6 lists what is deliberately not generated.",
         "DESIGN.md 4/C13"),
 "C14": ("differential property-based testing: each generated CNF / cardinality / PB problem solved with the cutting-planes strategy off and on (with/without prior at-most-one detection, with/without cost); verif hook hands every learned constraint to a truth-table implication check; clock-free step watchdog",
         "Same verdict and optimum as without the strategy and as brute force; valid model; no panic; termination (10^6 loop iterations on n<=12 is a failure); every constraint learned during a decision run is implied by the original problem.",
         "Implication of learned constraints is claimed for Solve runs (an optimisation run also learns from the bound constraints it adds) and checked for n<=20.",
         "DESIGN.md 4/C14"),
 "C15": ("rapid generation of clique-rich CNF/PB problems; model set of the parsed problem evaluated from exported data before/after DetectAtMostOne vs truth table; then Solve/CountModels/Optimal after detection vs truth",
         "Same variables and exactly the same model set before and after detection; verdict, count and optimum unchanged.",
         "n <= 9. The problem evaluator (gs.ProblemPred) is itself cross-checked against the truth table before detection.",
         "DESIGN.md 4/C15"),
 "C17": ("grammar-based generation: syntax trees rendered with every legal parenthesisation/whitespace choice (positive) and token-level corruptions filtered by an own recogniser of the documented grammar (negative); oracle = own evaluator vs Formula.Eval under all assignments",
         "Positive texts must parse to a formula equivalent to the documented reading (priorities ; = -> | & ^, right nesting); negative texts must give an error and a nil formula, never a panic.",
         "Identifiers are Go identifiers that are not keywords (the scanner is text/scanner in Go mode).",
         "DESIGN.md 4/C17"),
}
checks = []
for p in props:
    pid = p["id"]
    if pid not in CLAIMED:
        continue
    tech, text, note, ref = CLAIMED[pid]
    checks.append({
        "property_id": pid,
        "quick_cmd": f"./check {pid} --tier quick",
        "thorough_cmd": f"./check {pid} --tier thorough",
        "evidence_file": f"evidence/{pid}.json",
        "replay_cmd_template": f"./check {pid} --replay {{path}}",
        "engine": "vf-rapid",
        "level_claimed": {"category": "exploration", "text": text, "design_ref": ref},
        "level_note": note,
        "technique": tech,
    })
na = [{"property_id": p["id"], "reason": "check not implemented yet (work in progress; planned in DESIGN.md section 4, property-based testing applies)"} for p in props if p["id"] not in CLAIMED]
hook_commits = subprocess.run(["git", "-C", "/repo", "log", "--format=%H", "--grep=^verif hooks"], stdout=subprocess.PIPE, text=True).stdout.split()
m = {
 "version": 1,
 "setup_cmd": "cd harness && GOFLAGS=-mod=mod GOPROXY=off GOSUMDB=off GOTOOLCHAIN=local go build -tags verif ./... && GOFLAGS=-mod=mod GOPROXY=off GOSUMDB=off GOTOOLCHAIN=local go vet -tags verif ./vf ./oracle",
 "hooks": {
   "guard": "verif (Go build tag)",
   "enable": "go test -c -tags verif (harness/go.mod replaces github.com/crillab/gophersat with /repo, so every check rebuilds from the working tree)",
   "baseline_off_cmd": "cd /repo && GOFLAGS=-mod=mod GOPROXY=off GOSUMDB=off GOTOOLCHAIN=local go test -json -vet=off -count=1 -timeout 25m ./...",
   "source_commits": hook_commits,
   "add_only": True,
 },
 "engines": [{"name": "vf-rapid", "path": "harness/", "serves_properties": [c["property_id"] for c in checks],
              "kind_free_text": "Go test binaries: pgregory.net/rapid v1.3.0 generators + exhaustive enumerators + native go fuzzing (thorough), independent oracles in harness/oracle, driver ./check"}],
 "checks": checks,
 "not_applicable": na,
 "notes": "Technique family: property-based testing and fuzzing. ./check <ID> --tier quick|thorough [--replay FILE]; exit 0 held, 1 VIOLATION, 2 inconclusive/infrastructure. Known findings: known_findings.json.",
}
json.dump(m, open(os.path.join(ROOT, "MANIFEST.json"), "w"), indent=1)
print("claimed:", [c["property_id"] for c in checks], "not_applicable:", len(na))
