#!/usr/bin/env python3
"""Regenerates /verif/MANIFEST.json from the table below (run after adding a check)."""
import json, os, subprocess
ROOT = os.path.dirname(os.path.dirname(os.path.abspath(__file__)))
props = [json.loads(l) for l in open(os.path.join(ROOT, "properties.jsonl"))]
# id -> (technique, level text, level note, design ref)
CLAIMED = {
 "C01": ("exhaustive enumeration of tiny CNF spaces + rapid property-based generation (small, parity/pigeonhole, threshold 3-SAT) against a truth-table / DPLL / independent RUP-replay oracle",
         "Every ordered clause list of the tiny spaces named in the evidence is enumerated completely (exhaustive sub-check); beyond that, generated formulas up to 160 variables x {3 entry points} x {certificate on/off} x {learned-clause limit default or lowered via the verif hook} are solved and each answer is validated independently: truth table up to 20 variables, DPLL up to 60, model evaluation and replay of the refutation by a from-scratch RUP checker above. Exploration: held on everything generated; classes (conflicts, clause deletion, restarts) are measured and floored.",
         "Trusts harness/oracle (truth table, DPLL, RUP checker). Lowered learned-clause limit is always > number of variables (see DESIGN 2.1). Activity rescaling (>1e30) is not reached.",
         "DESIGN.md 4/C01"),
 "C02": ("rapid property-based generation of cardinality/PB constraint sets through both public front-ends, integer-arithmetic truth-table oracle over the constraints as written",
         "Generated constraint sets (n<=10, coefficients of either sign incl. 0, degrees from below the minimum to above the maximum, relations >=,<=,=, unit constraints mixed in) are solved and verdict + model are compared with integer arithmetic over all 2^n assignments. Exploration with measured class distribution and a non-triviality floor.",
         "Precondition kept from the statement: each variable at most once per constraint; LtEq/Eq always get explicit weights. Trusts oracle.Constr evaluation.",
         "DESIGN.md 4/C02"),
 "C03": ("rapid generation of (constraint set, cost function) pairs incl. covering-style instances and OPB objectives with negative coefficients; brute-force minimum oracle; three entry points compared",
         "Every generated instance is optimised through Optimal(nil), Optimal(chan) and Minimize+Model on fresh solvers; status, model validity, reported cost = cost function on the model = brute-force minimum are asserted. Covering-style generators make the search perform several strengthening rounds (measured: stream length >=2).",
         "Cost literals are restricted to variables of the problem (precondition of SetCostFunc observed from callers). Minimize's -1 convention is only checked for non-negative costs.",
         "DESIGN.md 4/C03"),
 "C04": ("rapid generation of weighted partial MaxSAT instances through the constraint API (each built and solved 3 times: map-ordered cost function) and as WCNF text; brute-force oracle",
         "hard-unsat <=> nil model / Unsat; otherwise the returned assignment satisfies the hard constraints, has exactly the user's variables (API) / the declared variable count (WCNF), and reported cost = weight of violated soft constraints = brute-force minimum.",
         "Positive coefficients only; WCNF clauses one per line (DESIGN 7.6). Trusts the brute-force evaluator.",
         "DESIGN.md 4/C04"),
 "C05": ("rapid generation of CNF/cardinality/PB problems with forced corner classes; truth-table model set vs CountModels, Enumerate(nil), Enumerate(chan) (multiset equality of delivered models)",
         "All three counting entry points, each on a fresh solver, must equal the truth-table count over the declared variables, and the channel must deliver every satisfying total assignment exactly once and be closed.",
         "n <= 10 so that the model set is enumerable. Trusts the truth table.",
         "DESIGN.md 4/C05"),
 "C09": ("stateful property-based testing: generated histories (Solve | AppendClause of clause/cardinality/PB constraint) with oracle-aimed additions, invariant checked after every Solve against a truth table of the whole conjunction; whole history shrinks as one value",
         "After every Solve of a generated history the verdict equals the truth table of base AND all additions, the model satisfies the conjunction, and Unsat is permanent. Additions are aimed (entailed / contradictory / against a model / new variables) by the harness's own oracle.",
         "Total variables <= 10; card/PB additions over distinct variables with positive weights. Histories mixing AppendClause with Assume are outside the property.",
         "DESIGN.md 4/C09"),
 "C10": ("stateful property-based testing: generated sequences of assumption rounds (repeated, self-contradicting, contradicting facts / the previous round) on small and conflict-rich bases; per-round truth-table oracle",
         "Each round's verdict must equal satisfiability of base AND that round's assumptions only; Sat models must satisfy every base clause (unit clauses included) and all current assumptions; Assume returning Unsat must be justified.",
         "n <= 20 (truth table per round). Bases are CNF via ParseSliceNb.",
         "DESIGN.md 4/C10"),
}
checks = []
for p in props:
    pid = p["id"]
    if pid not in CLAIMED:
        continue
    tech, text, note, ref = CLAIMED[pid]
    checks.append({
        "property_id": pid,
        "quick_cmd": f"./check {pid} --tier quick",
        "thorough_cmd": f"./check {pid} --tier thorough",
        "evidence_file": f"evidence/{pid}.json",
        "replay_cmd_template": f"./check {pid} --replay {{path}}",
        "engine": "vf-rapid",
        "level_claimed": {"category": "exploration", "text": text, "design_ref": ref},
        "level_note": note,
        "technique": tech,
    })
na = [{"property_id": p["id"], "reason": "check not implemented yet (work in progress; planned in DESIGN.md section 4, property-based testing applies)"} for p in props if p["id"] not in CLAIMED]
hook_commits = subprocess.run(["git", "-C", "/repo", "log", "--format=%H", "--grep=^verif hooks"], stdout=subprocess.PIPE, text=True).stdout.split()
m = {
 "version": 1,
 "setup_cmd": "cd harness && GOFLAGS=-mod=mod GOPROXY=off GOSUMDB=off GOTOOLCHAIN=local go build -tags verif ./... && GOFLAGS=-mod=mod GOPROXY=off GOSUMDB=off GOTOOLCHAIN=local go vet -tags verif ./vf ./oracle",
 "hooks": {
   "guard": "verif (Go build tag)",
   "enable": "go test -c -tags verif (harness/go.mod replaces github.com/crillab/gophersat with /repo, so every check rebuilds from the working tree)",
   "baseline_off_cmd": "cd /repo && GOFLAGS=-mod=mod GOPROXY=off GOSUMDB=off GOTOOLCHAIN=local go test -json -vet=off -count=1 -timeout 25m ./...",
   "source_commits": hook_commits,
   "add_only": True,
 },
 "engines": [{"name": "vf-rapid", "path": "harness/", "serves_properties": [c["property_id"] for c in checks],
              "kind_free_text": "Go test binaries: pgregory.net/rapid v1.3.0 generators + exhaustive enumerators + native go fuzzing (thorough), independent oracles in harness/oracle, driver ./check"}],
 "checks": checks,
 "not_applicable": na,
 "notes": "Technique family: property-based testing and fuzzing. ./check <ID> --tier quick|thorough [--replay FILE]; exit 0 held, 1 VIOLATION, 2 inconclusive/infrastructure. Known findings: known_findings.json.",
}
json.dump(m, open(os.path.join(ROOT, "MANIFEST.json"), "w"), indent=1)
print("claimed:", [c["property_id"] for c in checks], "not_applicable:", len(na))
