#!/usr/bin/env python3
"""Regenerates /verif/MANIFEST.json from the table below (run after adding a check)."""
import json, os, subprocess
ROOT = os.path.dirname(os.path.dirname(os.path.abspath(__file__)))
props = [json.loads(l) for l in open(os.path.join(ROOT, "properties.jsonl"))]
# id -> (technique, level text, level note, design ref)
CLAIMED = {
 "C01": ("exhaustive enumeration of tiny CNF spaces + rapid property-based generation (small, parity/pigeonhole, threshold 3-SAT) against a truth-table / DPLL / independent RUP-replay oracle",
         "Every ordered clause list of the tiny spaces named in the evidence is enumerated completely (exhaustive sub-check); beyond that, generated formulas up to 160 variables x {3 entry points} x {certificate on/off} x {learned-clause limit default or lowered via the verif hook} are solved and each answer is validated independently: truth table up to 20 variables, DPLL up to 60, model evaluation and replay of the refutation by a from-scratch RUP checker above. Exploration: held on everything generated; classes (conflicts, clause deletion, restarts) are measured and floored.",
         "Trusts harness/oracle (truth table, DPLL, RUP checker). Lowered learned-clause limit is always > number of variables (see DESIGN 2.1). Activity rescaling (>1e30) is not reached.",
         "DESIGN.md 4/C01"),
}
checks = []
for p in props:
    pid = p["id"]
    if pid not in CLAIMED:
        continue
    tech, text, note, ref = CLAIMED[pid]
    checks.append({
        "property_id": pid,
        "quick_cmd": f"./check {pid} --tier quick",
        "thorough_cmd": f"./check {pid} --tier thorough",
        "evidence_file": f"evidence/{pid}.json",
        "replay_cmd_template": f"./check {pid} --replay {{path}}",
        "engine": "vf-rapid",
        "level_claimed": {"category": "exploration", "text": text, "design_ref": ref},
        "level_note": note,
        "technique": tech,
    })
na = [{"property_id": p["id"], "reason": "check not implemented yet (work in progress; planned in DESIGN.md section 4, property-based testing applies)"} for p in props if p["id"] not in CLAIMED]
hook_commits = subprocess.run(["git", "-C", "/repo", "log", "--format=%H", "--grep=^verif hooks"], stdout=subprocess.PIPE, text=True).stdout.split()
m = {
 "version": 1,
 "setup_cmd": "cd harness && GOFLAGS=-mod=mod GOPROXY=off GOSUMDB=off GOTOOLCHAIN=local go build -tags verif ./... && GOFLAGS=-mod=mod GOPROXY=off GOSUMDB=off GOTOOLCHAIN=local go vet -tags verif ./vf ./oracle",
 "hooks": {
   "guard": "verif (Go build tag)",
   "enable": "go test -c -tags verif (harness/go.mod replaces github.com/crillab/gophersat with /repo, so every check rebuilds from the working tree)",
   "baseline_off_cmd": "cd /repo && GOFLAGS=-mod=mod GOPROXY=off GOSUMDB=off GOTOOLCHAIN=local go test -json -vet=off -count=1 -timeout 25m ./...",
   "source_commits": hook_commits,
   "add_only": True,
 },
 "engines": [{"name": "vf-rapid", "path": "harness/", "serves_properties": [c["property_id"] for c in checks],
              "kind_free_text": "Go test binaries: pgregory.net/rapid v1.3.0 generators + exhaustive enumerators + native go fuzzing (thorough), independent oracles in harness/oracle, driver ./check"}],
 "checks": checks,
 "not_applicable": na,
 "notes": "Technique family: property-based testing and fuzzing. ./check <ID> --tier quick|thorough [--replay FILE]; exit 0 held, 1 VIOLATION, 2 inconclusive/infrastructure. Known findings: known_findings.json.",
}
json.dump(m, open(os.path.join(ROOT, "MANIFEST.json"), "w"), indent=1)
print("claimed:", [c["property_id"] for c in checks], "not_applicable:", len(na))
