#!/usr/bin/env python3
import json, glob, sys, jsonschema
ok = True
ms = json.load(open('/root/.vp/MANIFEST.schema.json')); es = json.load(open('/root/.vp/EVIDENCE.schema.json'))
try:
    jsonschema.validate(json.load(open('/verif/MANIFEST.json')), ms)
except Exception as e:
    ok = False; print("MANIFEST:", e)
for f in sorted(glob.glob('/verif/evidence/*.json')):
    try:
        jsonschema.validate(json.load(open(f)), es)
    except Exception as e:
        ok = False; print(f, str(e)[:300])
print("valid" if ok else "INVALID")
sys.exit(0 if ok else 1)
