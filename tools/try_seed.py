#!/usr/bin/env python3
"""try_seed.py <patch.diff> [--props C01,C05,...] [--tier quick] [--seed N] [--jobs K]
Applies the patch to a scratch worktree of /repo HEAD (under /tmp), checks that it builds, runs the
named checks (default: all) against it through VERIF_REPO, prints which ones report a VIOLATION, and
removes the worktree. /repo itself is not touched."""
import argparse, hashlib, json, os, re, subprocess, sys
from concurrent.futures import ThreadPoolExecutor
ROOT = os.path.dirname(os.path.dirname(os.path.abspath(__file__)))
ap = argparse.ArgumentParser()
ap.add_argument("patch"); ap.add_argument("--props", default=""); ap.add_argument("--tier", default="quick")
ap.add_argument("--seed", default="1"); ap.add_argument("--jobs", type=int, default=4)
a = ap.parse_args()
patch = os.path.abspath(a.patch)
tag = hashlib.sha1(patch.encode()).hexdigest()[:8]
wt = f"/tmp/try-{tag}"
env = dict(os.environ, GOFLAGS="-mod=mod", GOPROXY="off", GOSUMDB="off", GOTOOLCHAIN="local")
subprocess.run(["git", "-C", "/repo", "worktree", "remove", "--force", wt], stderr=subprocess.DEVNULL)
subprocess.run(["git", "-C", "/repo", "worktree", "add", "--detach", wt, "HEAD"], check=True, stdout=subprocess.DEVNULL, stderr=subprocess.DEVNULL)
res = {}
try:
    r = subprocess.run(["git", "-C", wt, "apply", patch], stdout=subprocess.PIPE, stderr=subprocess.STDOUT, text=True)
    if r.returncode != 0:
        print("PATCH DOES NOT APPLY:", r.stdout); sys.exit(3)
    r = subprocess.run(["go", "build", "./..."], cwd=wt, env=env, stdout=subprocess.PIPE, stderr=subprocess.STDOUT, text=True)
    if r.returncode != 0:
        print("DOES NOT BUILD:", r.stdout); sys.exit(3)
    props = [p for p in a.props.split(",") if p] or [f"C{i:02d}" for i in range(1, 21)]
    def run(p):
        e = dict(env, VERIF_REPO=wt, VERIF_SEED=a.seed)
        r = subprocess.run([os.path.join(ROOT, "check"), p, "--tier", a.tier], env=e, stdout=subprocess.PIPE, stderr=subprocess.STDOUT, text=True)
        return p, r.returncode, r.stdout
    with ThreadPoolExecutor(a.jobs) as ex:
        for p, rc, out in ex.map(run, props):
            lines = [l for l in out.splitlines() if l.strip()]
            msg = ""
            if rc == 1:
                for i, l in enumerate(lines):
                    if l.startswith("VIOLATION") and i > 0:
                        msg = lines[i - 1].strip()[:220]; break
            elif rc != 0:
                msg = " | ".join(lines[-2:])[:300]
            res[p] = rc
            print(f"{p}: exit {rc} {'CAUGHT' if rc == 1 else ('ok' if rc == 0 else 'INFRA')} {msg}", flush=True)
finally:
    subprocess.run(["git", "-C", "/repo", "worktree", "remove", "--force", wt])
    for d in ("replay", "evidence"):
        subprocess.run(["rm", "-rf", os.path.join(ROOT, ".work", f"{d}-{hashlib.sha1(wt.encode()).hexdigest()[:8]}")])
caught = [p for p, rc in res.items() if rc == 1]
print("CAUGHT BY:", ",".join(caught) if caught else "nothing")
