#!/usr/bin/env python3
"""Fills meta.json (what / needs / detected_by / ran) of the round-5 seeded changes (ids Cnn-I).
what/needs summarise each author's notes (seeded/round5_summaries.json); detected_by records what was observed
here with tools/try_seed.py. `--table` prints the DESIGN.md table."""
import json, os, sys
ROOT = os.path.dirname(os.path.dirname(os.path.abspath(__file__)))
summ = json.load(open(os.path.join(ROOT, "seeded", "round5_summaries.json")))
Q = "quick"
DET = {
 "C01-I": {"C01": "quick (gs.Dimacs ends a third of its texts without a final newline, added after this change was missed)", "C13": "quick"},
 "C02-I": {"C02": Q},
 "C03-I": {"C03": Q},
 "C04-I": {"C04": "quick (hard clauses written with a weight above top in a third of the WCNF texts with a top weight, added after this change was missed)"},
 "C05-I": {"C05": "quick (a quarter of the card-fan / card / pb cases under the cutting-planes strategy, added after this change was missed)", "C14": "quick", "C02": "quick"},
 "C06-I": {"C06": "quick (sub-check spread-3sat, added after this change was missed: 3-SAT cores spread over thousands of declared variables)"},
 "C07-I": {"C07": Q},
 "C08-I": {"C08": Q},
 "C09-I": {"C09": Q},
 "C10-I": {"C10": Q},
 "C11-I": {"C11": Q},
 "C12-I": {"C12": "quick (an export to a failing writer precedes a quarter of the judged exports, added after this change was missed)"},
 "C13-I": {"C13": Q},
 "C14-I": {"C14": Q},
 "C15-I": {"C15": Q},
 "C16-I": {"C16": Q},
 "C17-I": {"C17": Q},
 "C18-I": {"C18": "quick (sub-check huge-constraint, added after this change was missed: a printed line of more than a megabyte)"},
 "C19-I": {"C19": "not reported by C19's quick tier at seed 1 (about forty -mus runs, few of them on unsatisfiable files with a repeated literal)", "C07": "quick", "C08": "quick (the root cause is the certificate checker's: families with repeated literals)"},
 "C20-I": {"C20": "quick (the stream does not end: the step limit of the hooks stops the solver and the case is reported)"},
}
for sid, det in DET.items():
    p = os.path.join(ROOT, "seeded", sid, "meta.json")
    m = json.load(open(p))
    m["what"], m["needs"] = summ[sid]["what"], summ[sid]["needs"]
    m["detected_by"] = det
    m["ran"] = "tools/confirm_seed.py (demo passes on HEAD, existing suite passes with the change, demo fails with it) then tools/try_seed.py <patch> --props <ID> [--seed N] (= VERIF_REPO=<scratch worktree with the change> ./check <ID>)"
    json.dump(m, open(p, "w"), indent=1)
print(len(DET), "meta.json files written")
if "--table" in sys.argv:
    for sid in sorted(DET):
        m = json.load(open(os.path.join(ROOT, "seeded", sid, "meta.json")))
        det = "; ".join(f"{k}: {v}" for k, v in m["detected_by"].items())
        print(f"| {sid} | {m['what']} | {m['needs']} | {det} |")
