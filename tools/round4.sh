#!/bin/bash
# round4.sh CNN : confirm /tmp/seed4-CNN/OUT/{A,B} as CNN-G / CNN-H and try them against CNN's quick check
p=$1
for ab in A B; do
  id=$p-$( [ $ab = A ] && echo G || echo H )
  [ -d /verif/seeded/$id ] && continue
  [ -f /tmp/seed4-$p/OUT/$ab.diff ] || { echo "$id: no deliverable"; continue; }
  python3 /verif/tools/confirm_seed.py /tmp/seed4-$p/OUT $ab $id $p 2>&1 | tail -1
  [ -d /verif/seeded/$id ] && python3 /verif/tools/try_seed.py /verif/seeded/$id/patch.diff --props $p --jobs 1 | tail -2
done
