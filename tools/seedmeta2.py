#!/usr/bin/env python3
"""Fills meta.json (what / needs / detected_by / ran) of the round-2 and round-3 seeded changes.
The what/needs sentences summarise each author's notes (seeded/<id>/author_notes.md);
detected_by records what was observed here with tools/try_seed.py. Re-runnable."""
import json, os, sys
ROOT = os.path.dirname(os.path.dirname(os.path.abspath(__file__)))
summ = json.load(open(os.path.join(ROOT, "seeded", "round2_summaries.json")))
DET = {
 "C01-C": {"C01": "quick"},
 "C01-D": {"C01": "quick"},
 "C02-C": {"C02": "quick (sub-check pb-knapsack, added after this change was only caught by the thorough tier: 5e-6 per uniform case, 3.5e-3 per knapsack case)"},
 "C02-D": {"C02": "quick"},
 "C03-C": {"C03": "quick"},
 "C03-D": {"C03": "quick"},
 "C04-C": {"C04": "quick"},
 "C04-D": {"C04": "quick (after the coefficient slices given to maxsat.New were carved from one arena and compared afterwards; missed before)"},
 "C05-C": {"C05": "quick (sub-check guarded-pigeonhole, added after this change was missed: a restart needs hundreds of conflicts)"},
 "C05-D": {"C05": "quick (CountModels on a solver that was Solve'd before, added after this change was missed)"},
 "C06-C": {"C06": "quick (sub-check long-learned-clauses, added after this change was missed)"},
 "C06-D": {"C06": "thorough always; quick at 2 of 3 seeds (a quarter of the 40 ladders have > 10 000 literals in the first learned clause)"},
 "C07-C": {"C10": "quick", "C07": "@C07-C"},
 "C07-D": {"C07": "quick (after the clause slices were carved from one arena with spare capacity; missed before)"},
 "C08-C": {"C08": "quick"},
 "C08-D": {"C08": "quick (after every single-literal follow-up certificate was added; missed before)"},
 "C09-C": {"C02": "quick", "C05": "quick", "C14": "quick", "C03": "quick", "C09": "@C09-C"},
 "C09-D": {"C09": "quick (sub-check long-cardinality, added after this change was missed)"},
 "C10-C": {"C10": "quick (sub-check relaxed-pigeonhole, added after this change was missed: restarts inside a round)"},
 "C10-D": {"C10": "quick"},
 "C11-C": {"C11": "quick (sub-check shared-subformulas, added after this change was missed; the run dies of a stack overflow, the journalled case is the replay file)"},
 "C11-D": {"C11": "quick"},
 "C12-C": {"C12": "quick"},
 "C12-D": {"C12": "quick"},
 "C13-C": {"C02": "quick", "C03": "quick", "C13": "@C13-C"},
 "C13-D": {"C13": "quick (long comment lines added to long-lines after this change was missed)"},
 "C14-C": {"C14": "quick"},
 "C14-D": {"C14": "quick (after lowered learned-constraint limits were added to C14; missed before)"},
 "C15-C": {"C14": "quick", "C15": "@C15-C"},
 "C15-D": {"C15": "quick"},
 "C16-C": {"C16": "quick (after lowered learned-clause limits were added to C16: reductions inside the concurrent runs; missed before)"},
 "C16-D": {"C16": "quick (sub-check fresh-process + four processes in the quick tier, added after this change was missed even by the thorough tier: the table is extended a handful of times per process, and the race detector only reports it against goroutines that are still running)"},
 "C17-C": {"C17": "quick (sub-check long-chains, added after this change was missed)"},
 "C17-D": {"C17": "quick (identifiers that are Go keywords, added after this change was missed; the same generator then found the genuine defect repaired by d89f472)"},
 "C18-C": {"C18": "quick (problems printed after a solver used them, added after this change was missed)"},
 "C18-D": {"C18": "not detected, by decision: the demonstration needs two solvers made from one Problem, which no caller does and which is not sound on the unchanged tree either (DESIGN 0.5, decision 18)"},
 "C19-C": {"C13": "quick", "C19": "@C19-C"},
 "C19-D": {"C14": "quick (knapsack)", "C19": "@C19-D"},
 "C20-C": {"C20": "quick"},
 "C20-D": {"C20": "quick (sub-check soft-pigeonhole, added after this change was missed: restart between two results)"},
}
# results of the own-property trials, filled in by hand after tools/try_seed.py runs
OWN = json.load(open(os.path.join(ROOT, "seeded", "round2_own.json"))) if os.path.exists(os.path.join(ROOT, "seeded", "round2_own.json")) else {}
n = 0
for sid, det in DET.items():
    p = os.path.join(ROOT, "seeded", sid, "meta.json")
    m = json.load(open(p))
    m["what"], m["needs"] = summ[sid]["what"], summ[sid]["needs"]
    m["detected_by"] = {k: (OWN.get(v[1:], "not detected by this property's own check") if v.startswith("@") else v) for k, v in det.items()}
    m["ran"] = "tools/confirm_seed.py (demo passes on HEAD, existing suite passes with the change, demo fails with it) then tools/try_seed.py <patch> --props <ID> [--tier thorough] [--seed N] (= VERIF_REPO=<scratch worktree with the change> ./check <ID>)"
    json.dump(m, open(p, "w"), indent=1)
    n += 1
print(n, "meta.json files written")
if "--table" in sys.argv:
    for sid in sorted(DET):
        m = json.load(open(os.path.join(ROOT, "seeded", sid, "meta.json")))
        det = "; ".join(f"{k}: {v}" for k, v in m["detected_by"].items())
        print(f"| {sid} | {m['what']} | {m['needs']} | {det} |")
