#!/bin/bash
# try_all.sh <tier> <id>... : runs each seeded change against the check of its own property
tier=$1; shift
for id in "$@"; do
  prop=${id%%-*}
  echo "== $id"
  python3 /verif/tools/try_seed.py /verif/seeded/$id/patch.diff --props $prop --tier $tier --jobs 1 | tail -2
done
