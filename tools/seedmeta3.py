#!/usr/bin/env python3
"""Fills meta.json (what / needs / detected_by / ran) of the round-3 seeded changes (ids Cnn-E, Cnn-F).
what/needs summarise each author's notes (seeded/round3_summaries.json); detected_by records what was observed
here with tools/try_seed.py. `--table` prints the DESIGN.md table."""
import json, os, sys
ROOT = os.path.dirname(os.path.dirname(os.path.abspath(__file__)))
summ = json.load(open(os.path.join(ROOT, "seeded", "round3_summaries.json")))
Q = "quick"
DET = {
 "C01-E": {"C01": "quick (sub-check side-by-side, added after this change was missed: the property's own check only ran one solver at a time)", "C16": "quick (data race report)"},
 "C01-F": {"C01": "quick (DIMACS entry with comment lines of 2..9 KB, added after this change was missed)"},
 "C02-E": {"C02": Q},
 "C02-F": {"C02": "quick (a fifth of the cases under the cutting-planes strategy, added after this change was missed)"},
 "C03-E": {"C03": Q},
 "C03-F": {"C03": "quick (sub-check soft-pigeonhole, added after this change was missed: a restart inside an optimisation)"},
 "C04-E": {"C04": Q},
 "C04-F": {"C04": "quick (sub-check hard-pb-systems, added after this change was missed)", "C02": "quick (same change as C13-C)"},
 "C05-E": {"C05": Q},
 "C05-F": {"C05": Q},
 "C06-E": {"C06": "quick (certificate taken from the redirected standard output, added for this change)"},
 "C06-F": {"C06": "quick (sub-check side-by-side, added after this change was missed)", "C16": "quick (same change as C16-E)"},
 "C07-E": {"C07": "quick (sub-check pigeonhole-plus-padding, added after this change was missed: restarts under assumptions)"},
 "C07-F": {"C07": "quick (sub-check duplicate-literals, added for this change; DESIGN 0.5 decision 24)"},
 "C08-E": {"C08": "quick (certificate lines repeating a literal, added after this change was missed)"},
 "C08-F": {"C08": "quick (sub-check big-wrapped-file, added after this change was missed)", "C13": "quick (long-lines, wrapped texts beyond 128 KB)"},
 "C09-E": {"C09": "quick (sub-check guarded-pigeonhole, added after this change was missed: a restart on an extended solver)"},
 "C09-F": {"C09": Q},
 "C10-E": {"C10": Q},
 "C10-F": {"C10": "quick (a quarter of the histories under the cutting-planes strategy, added for this change)"},
 "C11-E": {"C11": "quick (sub-check wide-groups, added after this change was missed: groups of 17 names and more)"},
 "C11-F": {"C11": "quick (sub-check lookalike-names, added after this change was missed)"},
 "C12-E": {"C12": Q},
 "C12-F": {"C12": "quick (names that are not identifiers, added after this change was missed)"},
 "C13-E": {"C13": Q},
 "C13-F": {"C13": "quick (WCNF top weights up to 2^62, added after this change was missed)"},
 "C14-E": {"C14": Q},
 "C14-F": {"C14": "quick (solver extended with AppendClause before the strategy is switched on, added after this change was missed)", "C09": "quick"},
 "C15-E": {"C15": "quick (Solve / CountModels under the cutting-planes strategy after detection, added after this change was missed)"},
 "C15-F": {"C15": "quick (weighted constraint that a fact shrinks to two literals, added after this change was missed)"},
 "C16-E": {"C16": Q},
 "C16-F": {"C16": "quick (formulas refuted while parsing and the append-solve task, added after this change was missed)"},
 "C17-E": {"C17": "quick (chains on a single line of more than 64 KB, added after this change was missed)"},
 "C17-F": {"C17": "quick (sub-check wide-groups, added after this change was missed: the first version only wrote groups of 1..4 names)"},
 "C18-E": {"C18": Q},
 "C18-F": {"C18": "quick (Minimize / Optimal steps before Solver.PBString, added after this change was missed)"},
 "C19-E": {"C19": Q},
 "C19-F": {"C19": Q},
 "C20-E": {"C20": Q},
 "C20-F": {"C20": Q},
}
for sid, det in DET.items():
    p = os.path.join(ROOT, "seeded", sid, "meta.json")
    m = json.load(open(p))
    m["what"], m["needs"] = summ[sid]["what"], summ[sid]["needs"]
    m["detected_by"] = det
    m["ran"] = "tools/confirm_seed.py (demo passes on HEAD, existing suite passes with the change, demo fails with it) then tools/try_seed.py <patch> --props <ID> [--seed N] (= VERIF_REPO=<scratch worktree with the change> ./check <ID>)"
    json.dump(m, open(p, "w"), indent=1)
print(len(DET), "meta.json files written")
if "--table" in sys.argv:
    for sid in sorted(DET):
        m = json.load(open(os.path.join(ROOT, "seeded", sid, "meta.json")))
        det = "; ".join(f"{k}: {v}" for k, v in m["detected_by"].items())
        print(f"| {sid} | {m['what']} | {m['needs']} | {det} |")
