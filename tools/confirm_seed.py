#!/usr/bin/env python3
"""confirm_seed.py <seed OUT dir> <A|B> <seeded-id> <property>
Confirms a seeded change independently: on a scratch worktree of /repo HEAD, (1) the demonstration passes
without the change, (2) with the change the project builds and its existing test suite passes, (3) the
demonstration fails with the change. On success copies patch.diff + the demonstration into
/verif/seeded/<id>/ and writes meta.json (fields 'needs' and 'detected_by' are completed later)."""
import json, os, re, shutil, subprocess, sys, glob
ROOT = os.path.dirname(os.path.dirname(os.path.abspath(__file__)))
out, ab, sid, prop = sys.argv[1:5]
env = dict(os.environ, GOFLAGS="-mod=mod", GOPROXY="off", GOSUMDB="off", GOTOOLCHAIN="local")
patch = os.path.join(out, f"{ab}.diff")
demos = glob.glob(os.path.join(out, f"{ab}_demo_test.go*"))
if not os.path.exists(patch) or not demos:
    print("missing deliverables", patch, demos); sys.exit(2)
demo = demos[0]
first = open(demo).readline()
m = re.search(r"place in:\s*(\S+)", first)
place = m.group(1).strip("`'\"") if m else "solver"
place = place.rstrip("/")
if place.endswith(".go"):
    place = os.path.dirname(place)
wt = f"/tmp/confirm-{sid}"
subprocess.run(["git", "-C", "/repo", "worktree", "remove", "--force", wt], stderr=subprocess.DEVNULL)
subprocess.run(["git", "-C", "/repo", "worktree", "add", "--detach", wt, "HEAD"], check=True, stdout=subprocess.DEVNULL, stderr=subprocess.DEVNULL)
def sh(cmd, cwd=wt):
    r = subprocess.run(cmd, cwd=cwd, env=env, stdout=subprocess.PIPE, stderr=subprocess.STDOUT, text=True)
    return r.returncode, r.stdout
ran = []
ok = False
try:
    dst = os.path.join(wt, place, f"demo_{ab}_test.go")
    shutil.copy(demo, dst)
    pkg = "./" + place if place not in (".", "") else "."
    race = ["-race"] if prop == "C16" else []
    runpat = "TestDemo" if prop == "C16" else "."  # C16's demonstrations use the race detector as their oracle
    rc, o = sh(["go", "test"] + race + ["-count=1", "-run", runpat, pkg]); ran.append(f"demo without change{' (-race)' if race else ''}: exit {rc}")
    if rc != 0:
        print("DEMO FAILS WITHOUT THE CHANGE\n", o[-1500:]); sys.exit(1)
    os.remove(dst)
    rc, o = sh(["git", "apply", patch])
    if rc != 0:
        print("PATCH DOES NOT APPLY TO HEAD\n", o); sys.exit(1)
    rc, o = sh(["go", "build", "./..."])
    if rc != 0:
        print("DOES NOT BUILD\n", o); sys.exit(1)
    rc, o = sh(["go", "test", "-vet=off", "-count=1", "./..."]); ran.append(f"existing suite with change: exit {rc}")
    if rc != 0:
        print("EXISTING SUITE FAILS WITH THE CHANGE\n", o[-1500:]); sys.exit(1)
    shutil.copy(demo, dst)
    rc, o = sh(["go", "test"] + race + ["-count=1", "-run", runpat, pkg]); ran.append(f"demo with change{' (-race)' if race else ''}: exit {rc}")
    if rc == 0:
        print("DEMO PASSES WITH THE CHANGE"); sys.exit(1)
    fail_excerpt = "\n".join([l for l in o.splitlines() if "FAIL" in l or "---" in l or "rror" in l][:6])
    ok = True
finally:
    subprocess.run(["git", "-C", "/repo", "worktree", "remove", "--force", wt])
d = os.path.join(ROOT, "seeded", sid)
os.makedirs(d, exist_ok=True)
shutil.copy(patch, os.path.join(d, "patch.diff"))
shutil.copy(demo, os.path.join(d, f"demo_test.go.txt"))
notes = ""
md = os.path.join(out, f"{ab}.md")
if os.path.exists(md):
    notes = open(md).read()
    shutil.copy(md, os.path.join(d, "author_notes.md"))
meta = {"id": sid, "property": prop, "demo_place": place, "confirmed": ran, "demo_failure_excerpt": fail_excerpt,
        "base_commit": subprocess.run(["git", "-C", "/repo", "rev-parse", "--short", "HEAD"], stdout=subprocess.PIPE, text=True).stdout.strip(),
        "needs": "", "detected_by": {}}
json.dump(meta, open(os.path.join(d, "meta.json"), "w"), indent=1)
print("CONFIRMED", sid, ran)
