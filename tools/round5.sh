#!/bin/bash
# round5.sh CNN : confirm /tmp/seed5-CNN/OUT/A as CNN-I and try it against CNN's quick check
p=$1
id=$p-I
if [ ! -d /verif/seeded/$id ]; then
  [ -f /tmp/seed5-$p/OUT/A.diff ] || { echo "$id: no deliverable"; exit 0; }
  python3 /verif/tools/confirm_seed.py /tmp/seed5-$p/OUT A $id $p 2>&1 | tail -1
fi
[ -d /verif/seeded/$id ] && python3 /verif/tools/try_seed.py /verif/seeded/$id/patch.diff --props $p --jobs 1 | tail -2
