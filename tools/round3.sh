#!/bin/bash
# round3.sh CNN : confirm /tmp/seed3-CNN/OUT/{A,B} as CNN-E / CNN-F and try them against CNN's quick check
p=$1
for ab in A B; do
  id=$p-$( [ $ab = A ] && echo E || echo F )
  [ -d /verif/seeded/$id ] && continue
  [ -f /tmp/seed3-$p/OUT/$ab.diff ] || { echo "$id: no deliverable"; continue; }
  python3 /verif/tools/confirm_seed.py /tmp/seed3-$p/OUT $ab $id $p 2>&1 | tail -1
  [ -d /verif/seeded/$id ] && python3 /verif/tools/try_seed.py /verif/seeded/$id/patch.diff --props $p --jobs 1 | tail -2
done
