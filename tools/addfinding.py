#!/usr/bin/env python3
"""addfinding.py <PROP> <replay.json> <slug> (--fixed <commit> | --open --match <regex> [--generated]) --what "<text>"
Copies the case into corpus/<PROP>/<slug>.json and records it in known_findings.json."""
import argparse, json, os, shutil
ROOT = os.path.dirname(os.path.dirname(os.path.abspath(__file__)))
ap = argparse.ArgumentParser()
ap.add_argument("prop"); ap.add_argument("replay"); ap.add_argument("slug")
ap.add_argument("--fixed"); ap.add_argument("--open", action="store_true"); ap.add_argument("--match", default="")
ap.add_argument("--generated", action="store_true"); ap.add_argument("--what", required=True); ap.add_argument("--sub", default="")
a = ap.parse_args()
d = os.path.join(ROOT, "corpus", a.prop); os.makedirs(d, exist_ok=True)
dst = os.path.join(d, a.slug + ".json")
cf = json.load(open(a.replay))
cf["note"] = a.what
json.dump(cf, open(dst, "w"), indent=1)
kf = os.path.join(ROOT, "known_findings.json")
doc = json.load(open(kf))
doc["findings"] = [f for f in doc["findings"] if f["id"] != a.slug]
e = {"id": a.slug, "property": a.prop, "witness": os.path.relpath(dst, ROOT), "what": a.what}
if a.fixed:
    e.update(status="fixed", commit=a.fixed, line=f"fixed: property={a.prop} {a.fixed} {a.what}")
else:
    e.update(status="open", match=a.match, generated=a.generated)
    if a.sub: e["sub"] = a.sub
doc["findings"].append(e)
json.dump(doc, open(kf, "w"), indent=1)
print("recorded", a.slug, "->", dst)
