#!/usr/bin/env python3
"""For every 'fixed' entry of known_findings.json: check out <commit>^ of /repo into a scratch
worktree under /tmp, replay the witness there (must FAIL) and on /repo (must PASS)."""
import json, os, subprocess, sys, shutil
ROOT = os.path.dirname(os.path.dirname(os.path.abspath(__file__)))
doc = json.load(open(os.path.join(ROOT, "known_findings.json")))
only = set(sys.argv[1:])
bad = 0
by_commit = {}
for f in doc["findings"]:
    if f["status"] == "fixed" and (not only or f["id"] in only or f["property"] in only):
        by_commit.setdefault(f["commit"], []).append(f)
for commit, fs in by_commit.items():
    wt = f"/tmp/vfx-{commit}"
    subprocess.run(["git", "-C", "/repo", "worktree", "remove", "--force", wt], stderr=subprocess.DEVNULL)
    r = subprocess.run(["git", "-C", "/repo", "worktree", "add", "--detach", wt, commit + "^"], stdout=subprocess.PIPE, stderr=subprocess.STDOUT, text=True)
    if r.returncode != 0:
        print("cannot create worktree", r.stdout); bad += 1; continue
    try:
        for f in fs:
            w = os.path.join(ROOT, f["witness"])
            pre = subprocess.run([os.path.join(ROOT, "check"), f["property"], "--replay", w], env=dict(os.environ, VERIF_REPO=wt), stdout=subprocess.PIPE, stderr=subprocess.STDOUT, text=True)
            post = subprocess.run([os.path.join(ROOT, "check"), f["property"], "--replay", w], stdout=subprocess.PIPE, stderr=subprocess.STDOUT, text=True)
            ok = pre.returncode == 1 and post.returncode == 0
            print(("OK  " if ok else "BAD "), f["id"], f"pre-fix exit {pre.returncode}, current exit {post.returncode}")
            if not ok:
                bad += 1
                print(pre.stdout[-600:]); print(post.stdout[-600:])
    finally:
        subprocess.run(["git", "-C", "/repo", "worktree", "remove", "--force", wt])
        for p in [os.path.join(ROOT, ".work", "bin")]:
            pass
sys.exit(1 if bad else 0)
