//go:build verif

// C07 — extracted MUSes are unsatisfiable, minimal sub-multisets of the input.
package c07

import (
	"fmt"
	"reflect"
	"strings"
	"testing"

	"github.com/crillab/gophersat/explain"
	"pgregory.net/rapid"
	"verifharness/gen"
	"verifharness/gs"
	"verifharness/oracle"
	"verifharness/vf"
)

type Case struct {
	N       int     `json:"n"`
	Clauses [][]int `json:"clauses"`
	Method  string  `json:"method"` // MUS | MUSDeletion | MUSInsertion | MUSMaxSat
	Shape   string  `json:"shape,omitempty"`
	Arena   bool    `json:"arena,omitempty"` // the caller's clauses are sub-slices of one backing array (spare capacity behind each)
}

func call(pb *explain.Problem, method string) (*explain.Problem, error) {
	switch method {
	case "MUS":
		return pb.MUS()
	case "MUSDeletion":
		return pb.MUSDeletion()
	case "MUSInsertion":
		return pb.MUSInsertion()
	case "MUSMaxSat":
		return pb.MUSMaxSat()
	}
	panic("bad method")
}

// countMUSes counts (up to 2) distinct minimal unsatisfiable sub-multisets by brute force (<= 12 clauses).
func isMUS(n int, cls [][]int) (unsat bool, redundant int) {
	if oracle.CNFSat(n, cls) {
		return false, -1
	}
	for i := range cls {
		rest := append(append([][]int{}, cls[:i]...), cls[i+1:]...)
		if !oracle.CNFSat(n, rest) {
			return true, i
		}
	}
	return true, -1
}

func check(c Case, o *vf.Obs) error {
	gs.Arm(0, gs.DefaultStepLimit)
	defer gs.Arm(0, 0)
	o.Class("method-" + c.Method)
	o.ClassIf(c.Shape != "", "shape-"+c.Shape)
	_, hasUnit, _, _ := gen.Shapes(c.Clauses)
	o.ClassIf(hasUnit, "has-unit-clause")
	pb, err := explain.ParseCNF(strings.NewReader(gs.Dimacs(c.N, c.Clauses)))
	if err != nil {
		return fmt.Errorf("explain.ParseCNF rejects a well-formed text: %v", err)
	}
	var arena, arenaBefore []int
	if c.Arena {
		// the Clauses field is exported: a caller may well carve its clauses out of one array.
		// Nothing of that array may change, including the cells behind each clause.
		o.Class("arena-clauses")
		for _, cl := range pb.Clauses {
			arena = append(arena, cl...)
		}
		arena = append(arena, 0, 0, 0, 0)
		arenaBefore = append([]int{}, arena...)
		off := 0
		for i, cl := range pb.Clauses {
			pb.Clauses[i] = arena[off : off+len(cl)]
			off += len(cl)
		}
	}
	sat := oracle.CNFSat(c.N, c.Clauses)
	o.ClassIf(sat, "sat-input")
	before := oracle.CloneCNF(pb.Clauses)
	nbC, nbV := pb.NbClauses, pb.NbVars
	for round := 0; round < 2; round++ {
		mus, err := call(pb, c.Method)
		if c.Arena && !reflect.DeepEqual(arena, arenaBefore) {
			return fmt.Errorf("call %d of %s wrote into the array holding the caller's clauses: %v -> %v", round+1, c.Method, arenaBefore, arena)
		}
		if !reflect.DeepEqual(pb.Clauses, before) || pb.NbClauses != nbC || pb.NbVars != nbV {
			return fmt.Errorf("call %d of %s changed the caller's problem: clauses %v -> %v, NbClauses %d->%d, NbVars %d->%d", round+1, c.Method, before, pb.Clauses, nbC, pb.NbClauses, nbV, pb.NbVars)
		}
		if sat {
			if err == nil || mus != nil {
				return fmt.Errorf("call %d: %s of a satisfiable problem returned %v, err=%v (want an error and no result)", round+1, c.Method, mus, err)
			}
			continue
		}
		if err != nil {
			return fmt.Errorf("call %d: %s of an unsatisfiable problem failed: %v", round+1, c.Method, err)
		}
		if mus.NbClauses != len(mus.Clauses) {
			return fmt.Errorf("call %d: result has NbClauses=%d but %d clauses", round+1, mus.NbClauses, len(mus.Clauses))
		}
		if !oracle.SubMultiset(mus.Clauses, c.Clauses) {
			return fmt.Errorf("call %d: result %v is not a sub-multiset of the input %v", round+1, mus.Clauses, c.Clauses)
		}
		unsat, red := isMUS(c.N, mus.Clauses)
		if !unsat {
			return fmt.Errorf("call %d: result %v is satisfiable", round+1, mus.Clauses)
		}
		if red >= 0 {
			return fmt.Errorf("call %d: result %v (%d clauses) is not minimal: clause #%d %v can be removed and the rest is still unsatisfiable", round+1, mus.Clauses, len(mus.Clauses), red, mus.Clauses[red])
		}
		if len(c.Clauses)-len(mus.Clauses) >= 2 {
			o.Nontrivial()
		}
		if round == 0 {
			// the returned value is itself an unsatisfiable CNF problem: every method must accept it, and, the set
			// being minimal, return all of its clauses
			o.Class("result-fed-back")
			kept := oracle.CloneCNF(mus.Clauses)
			for _, m2 := range []string{"MUS", "MUSDeletion", "MUSInsertion", "MUSMaxSat"} {
				var again *explain.Problem
				var err2 error
				if perr := vf.Safely(func() error { again, err2 = call(mus, m2); return nil }); perr != nil {
					return fmt.Errorf("%s of the problem returned by %s (%v): %v", m2, c.Method, kept, perr)
				}
				if err2 != nil {
					return fmt.Errorf("%s of the problem returned by %s (%v, unsatisfiable) failed: %v", m2, c.Method, kept, err2)
				}
				if !reflect.DeepEqual(mus.Clauses, kept) {
					return fmt.Errorf("%s changed the problem it was given (the result of %s): %v -> %v", m2, c.Method, kept, mus.Clauses)
				}
				if len(again.Clauses) != len(kept) || !oracle.SubMultiset(again.Clauses, kept) {
					return fmt.Errorf("%s of the minimal set %v returned %v (want the same clauses)", m2, kept, again.Clauses)
				}
			}
		}
	}
	return nil
}

// core draws a small unsatisfiable clause set over the given variables.
func core(t *rapid.T, vars []int) [][]int {
	switch rapid.IntRange(0, 3).Draw(t, "core") {
	case 0: // x, not x
		v := vars[0]
		return [][]int{{v}, {-v}}
	case 1: // all four sign patterns over two variables
		if len(vars) >= 2 {
			a, b := vars[0], vars[1]
			return [][]int{{a, b}, {a, -b}, {-a, b}, {-a, -b}}
		}
	case 2: // implication chain: a, a->b, b->c, not c
		if len(vars) >= 3 {
			a, b, d := vars[0], vars[1], vars[2]
			return [][]int{{a}, {-a, b}, {-b, d}, {-d}}
		}
	}
	// unit a, unit b, (not a or not b)
	if len(vars) >= 2 {
		return [][]int{{vars[0]}, {vars[1]}, {-vars[0], -vars[1]}}
	}
	return [][]int{{vars[0]}, {-vars[0]}}
}

// genDense: dense 3-SAT (ratio 4.5..6, n 7..14) with 2..5 unit clauses, through the methods that work under assumptions
// (MUSDeletion and the ones built on it): conflicts several levels deep whose analysis walks through literals that only
// hold because of an assumption, with learned clauses kept from one Solve call to the next.
func genDense(t *rapid.T) Case {
	c := Case{Method: rapid.SampledFrom([]string{"MUS", "MUSDeletion", "MUSDeletion", "MUSMaxSat"}).Draw(t, "method"), Shape: "dense-3sat-with-units"}
	c.N = gen.Uniform(t, 7, 14, "n")
	c.Clauses = gen.KSAT(t, c.N, c.N*gen.Uniform(t, 45, 60, "ratio")/10, 3)
	for i, k := 0, gen.Uniform(t, 2, 5, "units"); i < k; i++ {
		c.Clauses = append(c.Clauses, []int{gen.Lit(t, c.N, "u")})
	}
	c.Clauses = rapid.Permutation(c.Clauses).Draw(t, "order")
	return c
}

// genDup: the ordinary families with some clauses repeating one of their literals ("1 1 0", "2 -3 2 0"): legal
// DIMACS, and a clause made of one literal written twice is a unit clause in all but length.
func genDup(t *rapid.T) Case {
	c := genCase(t)
	c.Shape += "+dup-literals"
	c.Clauses = oracle.CloneCNF(c.Clauses)
	for i, cl := range c.Clauses {
		if len(cl) > 0 && gen.Chance(t, 1, 3, "dup") {
			l := cl[gen.Uniform(t, 0, len(cl)-1, "which")]
			at := gen.Uniform(t, 0, len(cl), "at")
			c.Clauses[i] = append(append(append([]int{}, cl[:at]...), l), cl[at:]...)
		}
	}
	// tautological clauses (x and not x in one clause: always true, never part of a MUS) and empty clauses (each one
	// is a MUS by itself)
	for i, k := 0, rapid.IntRange(0, 2).Draw(t, "tautologies"); i < k; i++ {
		x := gen.Uniform(t, 1, c.N, "tx")
		cl := []int{x, -x}
		if rapid.Bool().Draw(t, "flip") {
			cl = []int{-x, x}
		}
		for _, l := range gen.DistinctLits(t, c.N, rapid.IntRange(0, 2).Draw(t, "tlen"), "t") {
			if l != x && l != -x {
				cl = append(cl, l)
			}
		}
		at := gen.Uniform(t, 0, len(c.Clauses), "tat")
		c.Clauses = append(append(append([][]int{}, c.Clauses[:at]...), cl), c.Clauses[at:]...)
		c.Shape += "+tautology"
	}
	if gen.Chance(t, 1, 5, "emptyClause") {
		for i, k := 0, rapid.IntRange(1, 2).Draw(t, "empties"); i < k; i++ {
			at := gen.Uniform(t, 0, len(c.Clauses), "eat")
			c.Clauses = append(append(append([][]int{}, c.Clauses[:at]...), []int{}), c.Clauses[at:]...)
		}
		c.Shape += "+empty-clause"
	}
	return c
}

func genCase(t *rapid.T) Case {
	c := Case{Method: rapid.SampledFrom([]string{"MUS", "MUSDeletion", "MUSInsertion", "MUSMaxSat"}).Draw(t, "method")}
	switch rapid.IntRange(0, 8).Draw(t, "shape") {
	case 7, 8:
		// dense 3-SAT with a few unit clauses: conflicts several levels deep under MUSDeletion's assumptions
		c.Shape = "dense-3sat-with-units"
		c.N = gen.Uniform(t, 7, 13, "n")
		c.Clauses = gen.KSAT(t, c.N, c.N*gen.Uniform(t, 45, 60, "ratio")/10, 3)
		for i, k := 0, rapid.IntRange(1, 3).Draw(t, "units"); i < k; i++ {
			c.Clauses = append(c.Clauses, []int{gen.Lit(t, c.N, "u")})
		}
	case 0, 1:
		c.Shape = "random"
		c.N = gen.Uniform(t, 2, 8, "n")
		m := gen.Uniform(t, 1, 6*c.N, "m")
		for i := 0; i < m; i++ {
			ln := rapid.IntRange(1, 3).Draw(t, "len")
			if ln == 1 && !gen.Chance(t, 1, 3, "keepUnit") {
				ln = 2
			}
			c.Clauses = append(c.Clauses, gen.DistinctLits(t, c.N, ln, "v"))
		}
	case 2:
		c.Shape = "core-plus-padding"
		c.N = gen.Uniform(t, 4, 10, "n")
		perm := rapid.Permutation(seq(1, c.N)).Draw(t, "perm")
		c.Clauses = core(t, perm[:3])
		for i, k := 0, rapid.IntRange(0, 8).Draw(t, "pad"); i < k; i++ {
			c.Clauses = append(c.Clauses, gen.DistinctLits(t, c.N, rapid.IntRange(2, 3).Draw(t, "len"), "p"))
		}
	case 3:
		c.Shape = "two-disjoint-cores"
		c.N = gen.Uniform(t, 6, 10, "n")
		perm := rapid.Permutation(seq(1, c.N)).Draw(t, "perm")
		c.Clauses = append(core(t, perm[:3]), core(t, perm[3:6])...)
		for i, k := 0, rapid.IntRange(0, 4).Draw(t, "pad"); i < k; i++ {
			c.Clauses = append(c.Clauses, gen.DistinctLits(t, c.N, rapid.IntRange(2, 3).Draw(t, "len"), "p"))
		}
	case 4:
		c.Shape = "two-overlapping-cores"
		c.N = gen.Uniform(t, 5, 10, "n")
		perm := rapid.Permutation(seq(1, c.N)).Draw(t, "perm")
		c.Clauses = append(core(t, perm[:3]), core(t, perm[1:4])...)
		for i, k := 0, rapid.IntRange(0, 4).Draw(t, "pad"); i < k; i++ {
			c.Clauses = append(c.Clauses, gen.DistinctLits(t, c.N, rapid.IntRange(2, 3).Draw(t, "len"), "p"))
		}
	case 5:
		c.Shape = "pigeonhole"
		var cls [][]int
		c.N, cls = gen.Pigeonhole(t, rapid.IntRange(2, 3).Draw(t, "holes"), gen.Chance(t, 1, 5, "drop"))
		c.Clauses = cls
		if c.N < 10 {
			for i, k := 0, rapid.IntRange(0, 3).Draw(t, "pad"); i < k; i++ {
				c.Clauses = append(c.Clauses, gen.DistinctLits(t, c.N, 2, "p"))
			}
		}
	default:
		c.Shape = "repeated-clauses"
		c.N = gen.Uniform(t, 2, 6, "n")
		perm := rapid.Permutation(seq(1, c.N)).Draw(t, "perm")
		base := core(t, perm[:min(3, c.N)])
		c.Clauses = append(c.Clauses, base...)
		for i, k := 0, rapid.IntRange(1, 4).Draw(t, "rep"); i < k; i++ {
			c.Clauses = append(c.Clauses, append([]int{}, base[gen.Uniform(t, 0, len(base)-1, "w")]...))
		}
	}
	c.Clauses = rapid.Permutation(c.Clauses).Draw(t, "order")
	c.Arena = gen.Chance(t, 1, 3, "arena")
	return c
}

func seq(lo, hi int) []int {
	var s []int
	for i := lo; i <= hi; i++ {
		s = append(s, i)
	}
	return s
}

func min(a, b int) int {
	if a < b {
		return a
	}
	return b
}

func init() {
	vf.Register(vf.Sub[Case]{Name: "dense-under-assumptions", Quick: 5000, Thorough: 75000, Gen: genDense, Check: check, Floor: 0.5,
		Rule: "dense 3-SAT (ratio 4.5..6) over 7..14 variables with 2..5 unit clauses, clauses shuffled, methods MUS|MUSDeletion|MUSMaxSat (the ones that solve under assumptions with one hot solver), same oracle and non-triviality rule as mus"})
	vf.Register(vf.Sub[Case]{Name: "duplicate-literals", Quick: 2500, Thorough: 20000, Gen: genDup, Check: check, Floor: 0.2,
		Rule: "the families of mus with a literal repeated in a third of the clauses (clauses made of one literal written several times included), 0..2 tautological clauses and, in a fifth of the cases, 1..2 empty clauses; same oracle"})
	vf.Register(vf.Sub[Case]{Name: "mus", Quick: 2500, Thorough: 60000, Gen: genCase, Check: check, Floor: 0.25,
		Rule: "CNF n<=10 via explain.ParseCNF, clauses over distinct variables: random (about 40% satisfiable), one core + padding, two disjoint cores, two overlapping cores, pigeonhole 3->2 / 4->3, repeated clauses, trivially conflicting units, dense 3-SAT (n 7..13) with unit clauses; in a third of the cases the clauses handed to the library are sub-slices of one array, which must stay untouched; method MUS|MUSDeletion|MUSInsertion|MUSMaxSat called twice on the same receiver; oracle = truth table: result is a sub-multiset of the input, unsatisfiable, every single-clause removal satisfiable, NbClauses consistent; satisfiable input => error and nil; receiver (Clauses deep, NbVars, NbClauses) unchanged; non-trivial = unsat input with >=2 clauses more than the returned MUS"})
}

func TestMain(m *testing.M)   { vf.Main(m, "C07") }
func TestCorpus(t *testing.T) { vf.Corpus(t) }
func TestProp(t *testing.T)   { vf.RunAll(t) }
func TestReplay(t *testing.T) { vf.ReplayEnv(t) }

// native fuzz targets (thorough tier): the fuzzer mutates the byte stream that rapid decodes into generator choices
func FuzzMUS(f *testing.F) { vf.FuzzNamed(f, "C07", "mus") }

// ---- extraction with restarts inside: pigeonhole core plus padding, the MUS is known by construction -----

// PHPCase: the pigeonhole formula with Holes holes (minimally unsatisfiable: it is its own only MUS) shuffled among
// padding clauses that each hold a positive literal of a fresh variable (so that no padding clause belongs to any
// MUS). Every method must return exactly the pigeonhole clauses. The Solve calls made on the way take hundreds of
// conflicts each, under assumptions for the deletion-based methods: restarts and clause-database reductions happen.
type PHPCase struct {
	Holes  int     `json:"holes"`
	Pad    [][]int `json:"pad"`   // padding clauses: literals over the pigeonhole variables (given as 1..n, sign kept) and fresh ones (n+1..)
	Order  []int   `json:"order"` // positions: a permutation seed (cyclic) used to interleave the clauses
	Method string  `json:"method"`
}

func checkPHP(c PHPCase, o *vf.Obs) error {
	gs.Arm(0, 400_000_000)
	defer gs.Arm(0, 0)
	holes, pigeons := c.Holes, c.Holes+1
	n := pigeons * holes
	v := func(p, h int) int { return p*holes + h + 1 }
	var core [][]int
	for p := 0; p < pigeons; p++ {
		var cl []int
		for h := 0; h < holes; h++ {
			cl = append(cl, v(p, h))
		}
		core = append(core, cl)
	}
	for h := 0; h < holes; h++ {
		for p := 0; p < pigeons; p++ {
			for q := p + 1; q < pigeons; q++ {
				core = append(core, []int{-v(p, h), -v(q, h)})
			}
		}
	}
	all := append(oracle.CloneCNF(core), oracle.CloneCNF(c.Pad)...)
	// interleave deterministically from Order
	for i := len(all) - 1; i > 0 && len(c.Order) > 0; i-- {
		j := (c.Order[i%len(c.Order)] + i*7) % (i + 1)
		all[i], all[j] = all[j], all[i]
	}
	nv := oracle.MaxVar(all)
	o.Class("method-" + c.Method)
	o.Class(fmt.Sprintf("holes-%d", holes))
	pb, err := explain.ParseCNF(strings.NewReader(gs.Dimacs(nv, all)))
	if err != nil {
		return fmt.Errorf("explain.ParseCNF rejects a well-formed text: %v", err)
	}
	before := oracle.CloneCNF(pb.Clauses)
	mus, err := call(pb, c.Method)
	if !reflect.DeepEqual(pb.Clauses, before) {
		return fmt.Errorf("%s changed the caller's problem", c.Method)
	}
	if err != nil {
		return fmt.Errorf("%s of an unsatisfiable problem failed: %v", c.Method, err)
	}
	o.Nontrivial()
	if !oracle.SubMultiset(mus.Clauses, all) {
		return fmt.Errorf("%s: the result is not a sub-multiset of the input", c.Method)
	}
	if !oracle.SubMultiset(core, mus.Clauses) {
		return fmt.Errorf("%s: the result (%d clauses) lacks a clause of the pigeonhole formula with %d holes, which is minimally unsatisfiable: the result is satisfiable", c.Method, len(mus.Clauses), holes)
	}
	if len(mus.Clauses) != len(core) {
		for _, cl := range mus.Clauses {
			if oracle.MaxVar([][]int{cl}) > n {
				return fmt.Errorf("%s: the result holds %d clauses, among them the padding clause %v, which can be removed: the %d pigeonhole clauses are the only minimal unsatisfiable subset", c.Method, len(mus.Clauses), cl, len(core))
			}
		}
		return fmt.Errorf("%s: the result holds %d clauses, the only MUS has %d", c.Method, len(mus.Clauses), len(core))
	}
	return nil
}

func genPHP(t *rapid.T) PHPCase {
	c := PHPCase{Holes: rapid.SampledFrom([]int{4, 5, 6, 6}).Draw(t, "holes"), Method: rapid.SampledFrom([]string{"MUS", "MUSDeletion", "MUSDeletion", "MUSMaxSat", "MUSInsertion"}).Draw(t, "method")}
	n := (c.Holes + 1) * c.Holes
	fresh := rapid.IntRange(1, 4).Draw(t, "fresh")
	for i, k := 0, rapid.IntRange(1, 12).Draw(t, "pad"); i < k; i++ {
		cl := []int{n + 1 + rapid.IntRange(0, fresh-1).Draw(t, "f")}
		for _, l := range gen.DistinctLits(t, n, rapid.IntRange(0, 2).Draw(t, "plen"), "p") {
			cl = append(cl, l)
		}
		c.Pad = append(c.Pad, cl)
	}
	for i := 0; i < 16; i++ {
		c.Order = append(c.Order, rapid.IntRange(0, 1000).Draw(t, "o"))
	}
	return c
}

func init() {
	vf.Register(vf.Sub[PHPCase]{Name: "pigeonhole-plus-padding", Quick: 10, Thorough: 120, Gen: genPHP, Check: checkPHP, Floor: 0.9,
		Rule: "the pigeonhole formula with 4..6 holes (its own only MUS) shuffled among 1..12 padding clauses that each hold a positive literal of a fresh variable (no padding clause is in any MUS); methods MUS|MUSDeletion|MUSMaxSat|MUSInsertion; the result must be exactly the pigeonhole clauses and the receiver must be unchanged; the Solve calls made on the way take hundreds of conflicts (restarts, reductions), under assumptions for the deletion-based methods"})
}
