//go:build verif

// C12 — the DIMACS export of a formula has exactly the formula's models.
package c12

import (
	"bytes"
	"errors"
	"fmt"
	"strconv"
	"strings"
	"testing"

	"github.com/crillab/gophersat/bf"
	"pgregory.net/rapid"
	"verifharness/bfx"
	"verifharness/gen"
	"verifharness/oracle"
	"verifharness/vf"
)

type Case struct {
	F *oracle.F `json:"f"`
	// FailFirst > 0: before the export that is judged, the negated formula is exported to a writer that
	// accepts FailFirst-1 bytes and then returns an error (a full disk, a closed connection).
	FailFirst int `json:"fail_first,omitempty"`
}

type failingWriter struct{ left int }

func (w *failingWriter) Write(p []byte) (int, error) {
	if len(p) <= w.left {
		w.left -= len(p)
		return len(p), nil
	}
	n := w.left
	w.left = 0
	return n, errors.New("harness: writer refuses more bytes")
}

type export struct {
	nVars, nClauses int
	names           map[string]int
	clauses         [][]int
}

// parseExport is the harness's own strict reader of what bf.Dimacs writes.
func parseExport(txt string) (*export, error) {
	e := &export{names: map[string]int{}}
	header := false
	for ln, line := range strings.Split(txt, "\n") {
		if line == "" {
			continue
		}
		fs := strings.Fields(line)
		switch {
		case fs[0] == "p":
			if header {
				return nil, fmt.Errorf("line %d: second header", ln+1)
			}
			if len(fs) != 4 || fs[1] != "cnf" {
				return nil, fmt.Errorf("line %d: malformed header %q", ln+1, line)
			}
			var err1, err2 error
			e.nVars, err1 = strconv.Atoi(fs[2])
			e.nClauses, err2 = strconv.Atoi(fs[3])
			if err1 != nil || err2 != nil || e.nVars < 0 || e.nClauses < 0 {
				return nil, fmt.Errorf("line %d: malformed header %q", ln+1, line)
			}
			header = true
		case fs[0] == "c":
			if !header {
				return nil, fmt.Errorf("line %d: comment before header", ln+1)
			}
			rest := strings.TrimPrefix(line, "c ")
			i := strings.LastIndex(rest, "=")
			if i < 0 {
				return nil, fmt.Errorf("line %d: comment %q is not name=index", ln+1, line)
			}
			idx, err := strconv.Atoi(rest[i+1:])
			if err != nil {
				return nil, fmt.Errorf("line %d: comment %q is not name=index", ln+1, line)
			}
			name := rest[:i]
			if _, dup := e.names[name]; dup {
				return nil, fmt.Errorf("line %d: name %q mapped twice", ln+1, name)
			}
			e.names[name] = idx
		default:
			if !header {
				return nil, fmt.Errorf("line %d: clause before header", ln+1)
			}
			if fs[len(fs)-1] != "0" {
				return nil, fmt.Errorf("line %d: clause %q not terminated by 0", ln+1, line)
			}
			cl := []int{}
			for _, f := range fs[:len(fs)-1] {
				v, err := strconv.Atoi(f)
				if err != nil || v == 0 {
					return nil, fmt.Errorf("line %d: bad literal %q", ln+1, f)
				}
				if v > e.nVars || -v > e.nVars {
					return nil, fmt.Errorf("line %d: literal %d out of range 1..%d", ln+1, v, e.nVars)
				}
				cl = append(cl, v)
			}
			e.clauses = append(e.clauses, cl)
		}
	}
	if !header {
		return nil, fmt.Errorf("no header")
	}
	if len(e.clauses) != e.nClauses {
		return nil, fmt.Errorf("header announces %d clauses, %d found", e.nClauses, len(e.clauses))
	}
	return e, nil
}

func check(c Case, o *vf.Obs) error {
	c.F.Link()
	names := c.F.Vars()
	if c.FailFirst > 0 {
		o.Class("after-a-failed-export")
		if err := vf.Safely(func() error { bf.Dimacs(bf.Not(bfx.Build(c.F)), &failingWriter{left: c.FailFirst - 1}); return nil }); err != nil {
			return fmt.Errorf("Dimacs to a writer that fails after %d bytes: %v", c.FailFirst-1, err)
		}
	}
	var buf bytes.Buffer
	if err := bf.Dimacs(bfx.Build(c.F), &buf); err != nil {
		return fmt.Errorf("Dimacs returned an error: %v", err)
	}
	e, err := parseExport(buf.String())
	if err != nil {
		return fmt.Errorf("export is not well formed: %v\n%s", err, buf.String())
	}
	inFormula := map[string]bool{}
	for _, n := range names {
		inFormula[n] = true
	}
	seenIdx := map[int]string{}
	for n, idx := range e.names {
		if !inFormula[n] {
			return fmt.Errorf("name comment for %q, which is not a variable of the formula", n)
		}
		if idx < 1 || idx > e.nVars {
			return fmt.Errorf("name %q mapped to index %d outside 1..%d", n, idx, e.nVars)
		}
		if other, dup := seenIdx[idx]; dup {
			return fmt.Errorf("names %q and %q mapped to the same index %d", n, other, idx)
		}
		seenIdx[idx] = n
	}
	// a variable used by a clause must be a named variable or an auxiliary one; every named
	// variable that the translation kept must be in the table: a literal whose index is not in
	// the table is auxiliary, which we cannot tell apart by name - the model comparison decides.
	aux := e.nVars - len(e.names)
	o.ClassIf(aux > 0, "aux-vars")
	o.ClassIf(len(e.names) < len(names), "names-eliminated")
	o.ClassIf(len(e.clauses) == 0, "no-clause")
	if aux > 0 && len(e.clauses) >= 2 {
		o.Nontrivial()
	}
	if e.nVars > 20 {
		o.Inconclusive("export has more than 20 variables")
		return nil
	}
	fModels := map[uint64]bool{}
	for _, m := range oracle.FormulaModels(c.F, names) {
		fModels[m] = true
	}
	// projection of the export's models on the named variables
	pred := oracle.CNFPred(e.clauses)
	kept := make([]int, len(names)) // index in the export, or 0 if eliminated
	var elim []int                  // positions (in names) of eliminated variables
	for i, n := range names {
		kept[i] = e.names[n]
		if kept[i] == 0 {
			elim = append(elim, i)
		}
	}
	proj := map[uint64]bool{}
	for m := uint64(0); m < 1<<uint(e.nVars); m++ {
		if !pred(m) {
			continue
		}
		var p uint64
		for i, idx := range kept {
			if idx > 0 && m>>uint(idx-1)&1 == 1 {
				p |= 1 << uint(i)
			}
		}
		proj[p] = true
	}
	// every export model, extended in every way over eliminated names, satisfies the formula
	for p := range proj {
		for x := uint64(0); x < 1<<uint(len(elim)); x++ {
			q := p
			for j, pos := range elim {
				if x>>uint(j)&1 == 1 {
					q |= 1 << uint(pos)
				}
			}
			if !fModels[q] {
				return fmt.Errorf("a model of the export restricts to %v, which does not satisfy the formula %v\n%s", oracle.EnvOf(names, q), c.F, buf.String())
			}
		}
	}
	// every formula model extends to a model of the export
	var elimMask uint64
	for _, pos := range elim {
		elimMask |= 1 << uint(pos)
	}
	for m := range fModels {
		if !proj[m&^elimMask] {
			return fmt.Errorf("formula model %v does not extend to a model of the export of %v\n%s", oracle.EnvOf(names, m), c.F, buf.String())
		}
	}
	return nil
}

// sharedOpt: in a third of the cases sub-formula objects are reused at several places.
func sharedOpt(t *rapid.T) *[]*oracle.F {
	if gen.Chance(t, 1, 3, "shared") {
		return &[]*oracle.F{}
	}
	return nil
}

func genCase(t *rapid.T) Case {
	names := gen.Names(t, gen.Uniform(t, 1, 6, "names"))
	if gen.Chance(t, 1, 5, "manyNames") {
		names = gen.Names(t, 8)
	}
	c := Case{F: gen.Formula(t, gen.FormulaOpts{MaxDepth: rapid.IntRange(1, 4).Draw(t, "depth"), Names: names, MaxGroup: 8, BigGroupsPos: true, Groups: &[][]string{}, Shared: sharedOpt(t)}, 0, 1)}
	if gen.Chance(t, 1, 4, "failFirst") {
		c.FailFirst = 1 + rapid.SampledFrom([]int{0, 0, 1, 5, 12, 40, 200}).Draw(t, "acceptedBytes")
	}
	return c
}

func init() {
	vf.Register(vf.Sub[Case]{Name: "export", Quick: 12000, Thorough: 100000, Gen: genCase, Check: check, Floor: 0.3,
		Rule: "formula trees as in C11 (depth <=4, <=8 names, exactly-one groups of >4 names only at positive polarity, as the property says); the exported bytes are parsed by the harness's own strict reader (header counts, literal range, name table: known names, distinct indices in range); all models of the exported CNF (<=20 variables) are enumerated; both directions asserted: each export model restricted through the name table and extended in every way over eliminated names satisfies the formula, and each formula model extends to an export model; non-trivial = export with >=1 auxiliary variable and >=2 clauses"})
}

func TestMain(m *testing.M)   { vf.Main(m, "C12") }
func TestCorpus(t *testing.T) { vf.Corpus(t) }
func TestProp(t *testing.T)   { vf.RunAll(t) }
func TestReplay(t *testing.T) { vf.ReplayEnv(t) }

// native fuzz targets (thorough tier): the fuzzer mutates the byte stream that rapid decodes into generator choices
func FuzzExport(f *testing.F) { vf.FuzzNamed(f, "C12", "export") }
