//go:build verif

// C19 — what the command line tool prints is true.
package c19

import (
	"bytes"
	"context"
	"fmt"
	"os"
	"os/exec"
	"path/filepath"
	"regexp"
	"strconv"
	"strings"
	"testing"
	"time"

	"pgregory.net/rapid"
	"verifharness/gen"
	"verifharness/gs"
	"verifharness/oracle"
	"verifharness/texts"
	"verifharness/vf"
)

type Case struct {
	Kind    string          `json:"kind"` // cnf | opb | wcnf | bf | unreadable | unknown-suffix | broken
	N       int             `json:"n,omitempty"`
	Clauses [][]int         `json:"clauses,omitempty"`
	Constrs []gen.PC        `json:"constrs,omitempty"`
	Cost    *oracle.Cost    `json:"cost,omitempty"`
	WCNF    []texts.WClause `json:"wcnf,omitempty"`
	Top     int             `json:"top,omitempty"`
	Tree    *oracle.F       `json:"tree,omitempty"` // bf: syntax tree (texts.Tokens)
	Flags   []string        `json:"flags"`
	Broken  string          `json:"broken,omitempty"` // text of a syntactically broken file, with its suffix in Kind
	Suffix  string          `json:"suffix,omitempty"`
	// Comment, when its length is > 0, adds one comment line of about that many bytes (words and numbers, so that a
	// reader that takes part of it for data gets clauses) to a .cnf, .opb or .wcnf file; Where: 0 first line, 1 after
	// the header / objective line, 2 last line.
	Comment int `json:"comment,omitempty"`
	Where   int `json:"where,omitempty"`
	// Fixed (bf files with a wide exactly-one group): the names that literals conjoined at top level fix, with their
	// values; satisfiability is then decided by enumerating the other names only
	Fixed map[string]bool `json:"fixed,omitempty"`
	// Known: "unsat" / "sat" when the verdict of a .cnf file too large for brute force is known by construction
	Known string `json:"known,omitempty"`
}

var workDir string

func cli() string { return os.Getenv("VERIF_CLI") }

func has(flags []string, f string) bool {
	for _, x := range flags {
		if x == f {
			return true
		}
	}
	return false
}

type run struct {
	stdout, stderr string
	exit           int
	timedOut       bool
}

func execCLI(args ...string) run {
	ctx, cancel := context.WithTimeout(context.Background(), 60*time.Second)
	defer cancel()
	cmd := exec.CommandContext(ctx, cli(), args...)
	var so, se bytes.Buffer
	cmd.Stdout, cmd.Stderr = &so, &se
	err := cmd.Run()
	r := run{stdout: so.String(), stderr: se.String()}
	if ctx.Err() != nil {
		r.timedOut = true
		return r
	}
	if err != nil {
		if ee, ok := err.(*exec.ExitError); ok {
			r.exit = ee.ExitCode()
		} else {
			r.exit = -1
		}
	}
	return r
}

var answerLine = regexp.MustCompile(`(?m)^(s |v |o |SATISFIABLE|UNSATISFIABLE)`)

// withComment inserts the long comment line of the case into a text whose comment lines start with lead.
func withComment(c Case, text, lead string) string {
	if c.Comment <= 0 {
		return text
	}
	var b strings.Builder
	b.WriteString(lead + " generated")
	for i := 0; b.Len() < c.Comment; i++ {
		fmt.Fprintf(&b, " %d -%d 0 x", i%7+1, (i+3)%5+1)
	}
	b.WriteString(" 1 0 -1 0\n")
	lines := strings.SplitAfter(text, "\n")
	at := 0
	switch c.Where {
	case 1:
		at = 1
	case 2:
		at = len(lines)
	}
	if at > len(lines) {
		at = len(lines)
	}
	head := strings.Join(lines[:at], "")
	if head != "" && !strings.HasSuffix(head, "\n") {
		head += "\n" // a text without a final newline: the comment still goes on a line of its own
	}
	return head + b.String() + strings.Join(lines[at:], "")
}

func fileText(c Case) (string, string) {
	switch c.Kind {
	case "cnf", "opb", "wcnf":
		if c.Comment > 0 {
			lead := map[string]string{"cnf": "c", "opb": "*", "wcnf": "c"}[c.Kind]
			plain := c
			plain.Comment = 0
			text, suffix := fileText(plain)
			return withComment(c, text, lead), suffix
		}
	}
	switch c.Kind {
	case "cnf":
		return gs.Dimacs(c.N, c.Clauses), ".cnf"
	case "opb":
		return texts.OPB(c.Cost, gen.Sems(c.Constrs), texts.OPBLayout{}), ".opb"
	case "wcnf":
		return texts.WCNF(c.N, c.Top, c.WCNF, texts.WCNFLayout{}), ".wcnf"
	case "bf":
		return strings.Join(texts.Tokens(c.Tree, texts.RenderOpts{}), " ") + "\n", ".bf"
	case "broken":
		return c.Broken, c.Suffix
	case "unknown-suffix":
		return gs.Dimacs(c.N, c.Clauses), ".txt"
	}
	return "", ".cnf"
}

func parseModelLine(line string, n int) ([]bool, error) {
	fs := strings.Fields(strings.TrimPrefix(line, "v"))
	model := make([]bool, n)
	seen := make([]bool, n)
	for _, f := range fs {
		if f == "0" {
			continue
		}
		neg := strings.HasPrefix(f, "-")
		f = strings.TrimPrefix(strings.TrimPrefix(f, "-"), "x")
		v, err := strconv.Atoi(f)
		if err != nil || v < 1 || v > n {
			return nil, fmt.Errorf("bad literal %q in the v line %q (%d variables)", f, line, n)
		}
		if seen[v-1] {
			return nil, fmt.Errorf("variable %d appears twice in %q", v, line)
		}
		seen[v-1] = true
		model[v-1] = !neg
	}
	for i, s := range seen {
		if !s {
			return nil, fmt.Errorf("the v line %q gives no value to variable %d (of %d)", line, i+1, n)
		}
	}
	return model, nil
}

func check(c Case, o *vf.Obs) error {
	if cli() == "" {
		return fmt.Errorf("%w: VERIF_CLI not set", vf.ErrInconclusive)
	}
	o.Class("kind-" + c.Kind)
	o.ClassIf(c.Comment > 4096, "comment-line>4096-bytes")
	for _, f := range c.Flags {
		o.Class("flag" + f)
	}
	o.ClassIf(len(c.Flags) == 0, "no-flag")
	txt, suffix := fileText(c)
	path := filepath.Join(workDir, "f"+suffix)
	if c.Kind == "unreadable" {
		path = filepath.Join(workDir, "does-not-exist"+c.Suffix)
	} else if err := os.WriteFile(path, []byte(txt), 0o644); err != nil {
		return fmt.Errorf("%w: %v", vf.ErrInconclusive, err)
	}
	r := execCLI(append(append([]string{}, c.Flags...), path)...)
	if r.timedOut {
		o.Inconclusive("command timed out after 60s")
		return nil
	}
	ctxt := func() string {
		return fmt.Sprintf("\n--- gophersat %s f%s ---\n%s--- stdout ---\n%s--- stderr ---\n%s", strings.Join(c.Flags, " "), suffix, txt, r.stdout, r.stderr)
	}
	if strings.Contains(r.stderr, "panic:") || strings.Contains(r.stderr, "fatal error:") {
		return fmt.Errorf("the tool crashed (exit status %d)%s", r.exit, ctxt())
	}
	switch c.Kind {
	case "unreadable", "unknown-suffix", "broken":
		o.Nontrivial()
		if has(c.Flags, "-mus") && c.Kind == "unknown-suffix" {
			return nil // -mus reads any file as DIMACS whatever its suffix: the file is a readable one
		}
		if r.exit == 0 {
			return fmt.Errorf("exit status 0 for an %s file%s", c.Kind, ctxt())
		}
		if answerLine.MatchString(r.stdout) {
			return fmt.Errorf("an answer line is printed for an %s file%s", c.Kind, ctxt())
		}
		return nil
	}
	lines := strings.Split(strings.TrimRight(r.stdout, "\n"), "\n")
	get := func(prefix string) []string {
		var out []string
		for _, l := range lines {
			if strings.HasPrefix(l, prefix) {
				out = append(out, l)
			}
		}
		return out
	}
	switch {
	case has(c.Flags, "-mus"):
		return checkMUS(c, o, r, ctxt)
	case c.Kind == "bf":
		return checkBF(c, o, r, lines, ctxt)
	case has(c.Flags, "-count") && (c.Kind == "cnf" || c.Kind == "opb"):
		return checkCount(c, o, r, lines, ctxt)
	}
	if r.exit != 0 {
		return fmt.Errorf("exit status %d on a well-formed file%s", r.exit, ctxt())
	}
	// decision / optimisation answers
	var conj []oracle.Constr
	n := c.N
	costOf := func(uint64) int { return 0 }
	feasibleOf := func(m uint64) bool { return oracle.AllTrue(conj, m) }
	switch c.Kind {
	case "cnf":
		for _, cl := range c.Clauses {
			conj = append(conj, oracle.Clause(cl...))
		}
	case "opb":
		conj = gen.Sems(c.Constrs)
		n = oracle.MaxVarConstrs(conj)
		if c.Cost != nil {
			costOf = c.Cost.Of
			for _, l := range c.Cost.Lits {
				if l < 0 {
					l = -l
				}
				if l > n {
					n = l
				}
			}
		}
	case "wcnf":
		feasibleOf = func(m uint64) bool {
			for _, w := range c.WCNF {
				if w.Weight == 0 && !oracle.ClauseTrue(w.Lits, m) {
					return false
				}
			}
			return true
		}
		costOf = func(m uint64) int {
			k := 0
			for _, w := range c.WCNF {
				if w.Weight != 0 && !oracle.ClauseTrue(w.Lits, m) {
					k += w.Weight
				}
			}
			return k
		}
	}
	var best int
	var feasible bool
	if c.Known != "" {
		feasible = c.Known == "sat"
		o.Class("verdict-known-by-construction")
	} else {
		best, feasible, _ = oracle.Minimum(n, feasibleOf, costOf)
	}
	o.ClassIf(!feasible, "unsat")
	ss := get("s ")
	if len(ss) != 1 {
		return fmt.Errorf("%d status lines, want exactly one%s", len(ss), ctxt())
	}
	// -verbose may only add comment lines; -certified adds clause lines on .cnf
	for _, l := range lines {
		ok := strings.HasPrefix(l, "c ") || l == "c" || strings.HasPrefix(l, "s ") || strings.HasPrefix(l, "v ") || strings.HasPrefix(l, "o ") || l == ""
		if !ok && has(c.Flags, "-certified") {
			if _, err := gs.ParseCertLine(l); err == nil {
				ok = true
			}
		}
		if !ok {
			return fmt.Errorf("unexpected output line %q%s", l, ctxt())
		}
	}
	optim := c.Kind == "opb" || c.Kind == "wcnf"
	switch ss[0] {
	case "s UNSATISFIABLE":
		if feasible {
			return fmt.Errorf("'s UNSATISFIABLE' for a satisfiable file%s", ctxt())
		}
		if len(get("v ")) > 0 || len(get("o ")) > 0 {
			return fmt.Errorf("a v or o line accompanies 's UNSATISFIABLE'%s", ctxt())
		}
		if has(c.Flags, "-certified") && c.Kind == "cnf" {
			var cert [][]int
			for _, l := range lines {
				if cl, err := gs.ParseCertLine(l); err == nil && !strings.HasPrefix(l, "c") && !strings.HasPrefix(l, "s") && !strings.HasPrefix(l, "v") {
					cert = append(cert, cl)
				}
			}
			bad, refuted := oracle.CheckTrace(n, c.Clauses, cert)
			if bad >= 0 || !refuted {
				return fmt.Errorf("the printed certificate is not a RUP refutation of the file (first bad line index %d, empty clause derivable=%v)%s", bad, refuted, ctxt())
			}
			o.Class("certificate-checked")
		}
	case "s SATISFIABLE", "s OPTIMUM FOUND":
		decisionOPB := c.Kind == "opb" && c.Cost == nil // no objective: either spelling is truthful
		if !decisionOPB && optim != (ss[0] == "s OPTIMUM FOUND") {
			return fmt.Errorf("status line %q for a %s file%s", ss[0], c.Kind, ctxt())
		}
		if !feasible {
			return fmt.Errorf("%q for an unsatisfiable file%s", ss[0], ctxt())
		}
		vs := get("v ")
		if len(vs) != 1 {
			return fmt.Errorf("%d v lines, want exactly one%s", len(vs), ctxt())
		}
		model, err := parseModelLine(vs[0], n)
		if err != nil {
			return fmt.Errorf("%v%s", err, ctxt())
		}
		m := oracle.MaskOf(model)
		if !feasibleOf(m) {
			return fmt.Errorf("the v line is not a model of the file%s", ctxt())
		}
		if optim && !(decisionOPB && ss[0] == "s SATISFIABLE") {
			os_ := get("o ")
			if len(os_) == 0 {
				return fmt.Errorf("no o line before 's OPTIMUM FOUND'%s", ctxt())
			}
			prev := 0
			for i, l := range os_ {
				k, err := strconv.Atoi(strings.TrimSpace(strings.TrimPrefix(l, "o ")))
				if err != nil {
					return fmt.Errorf("bad o line %q%s", l, ctxt())
				}
				if i > 0 && k >= prev {
					return fmt.Errorf("o lines do not strictly decrease (%d then %d)%s", prev, k, ctxt())
				}
				prev = k
			}
			if prev != best {
				return fmt.Errorf("last o line is %d, the optimum of the file is %d%s", prev, best, ctxt())
			}
			if costOf(m) != best {
				return fmt.Errorf("the printed model costs %d, the optimum is %d%s", costOf(m), best, ctxt())
			}
			o.ClassIf(len(os_) >= 2, "o-lines>=2")
		}
	default:
		return fmt.Errorf("status line %q%s", ss[0], ctxt())
	}
	if len(conj) >= 2 || len(c.WCNF) >= 2 {
		o.Nontrivial()
	}
	return nil
}

func checkCount(c Case, o *vf.Obs, r run, lines []string, ctxt func() string) error {
	if r.exit != 0 {
		return fmt.Errorf("exit status %d on a well-formed file%s", r.exit, ctxt())
	}
	var conj []oracle.Constr
	n := c.N
	if c.Kind == "cnf" {
		for _, cl := range c.Clauses {
			conj = append(conj, oracle.Clause(cl...))
		}
	} else {
		conj = gen.Sems(c.Constrs)
		n = oracle.MaxVarConstrs(conj)
		if c.Cost != nil {
			for _, l := range c.Cost.Lits {
				if l < 0 {
					l = -l
				}
				if l > n {
					n = l
				}
			}
		}
	}
	want := oracle.Count(n, func(m uint64) bool { return oracle.AllTrue(conj, m) })
	var nums []int
	for _, l := range lines {
		if strings.HasPrefix(l, "c") || l == "" {
			continue
		}
		k, err := strconv.Atoi(strings.TrimSpace(l))
		if err != nil {
			return fmt.Errorf("unexpected output line %q with -count%s", l, ctxt())
		}
		nums = append(nums, k)
	}
	if len(nums) != 1 || nums[0] != want {
		return fmt.Errorf("-count printed %v, the file has %d models over %d variables%s", nums, want, n, ctxt())
	}
	if want >= 2 {
		o.Nontrivial()
	}
	return nil
}

func checkBF(c Case, o *vf.Obs, r run, lines []string, ctxt func() string) error {
	if r.exit != 0 {
		return fmt.Errorf("exit status %d on a well-formed file%s", r.exit, ctxt())
	}
	sem := texts.SemF(c.Tree)
	names := sem.Vars()
	var models []uint64
	if len(c.Fixed) == 0 {
		models = oracle.FormulaModels(sem, names)
	} else {
		o.Class("bf-wide-group")
		var free []string
		e := map[string]bool{}
		for _, n := range names {
			if v, ok := c.Fixed[n]; ok {
				e[n] = v
			} else {
				free = append(free, n)
			}
		}
		for m := uint64(0); m < 1<<uint(len(free)); m++ {
			for i, n := range free {
				e[n] = m>>uint(i)&1 == 1
			}
			if sem.Eval(e) {
				models = append(models, m) // only emptiness matters below
			}
		}
	}
	var status string
	env := map[string]bool{}
	for _, l := range lines {
		switch {
		case strings.HasPrefix(l, "c ") || l == "":
		case l == "SATISFIABLE" || l == "UNSATISFIABLE" || l == "s SATISFIABLE" || l == "s UNSATISFIABLE":
			// (the tool prints the bare word for .bf files; the competition spelling would be as truthful)
			if status != "" {
				return fmt.Errorf("two status lines%s", ctxt())
			}
			status = strings.TrimPrefix(l, "s ")
		default:
			i := strings.LastIndex(l, ": ")
			if i < 0 {
				return fmt.Errorf("unexpected output line %q%s", l, ctxt())
			}
			b, err := strconv.ParseBool(l[i+2:])
			if err != nil {
				return fmt.Errorf("unexpected output line %q%s", l, ctxt())
			}
			env[l[:i]] = b
		}
	}
	switch status {
	case "UNSATISFIABLE":
		if len(models) > 0 {
			return fmt.Errorf("UNSATISFIABLE printed for a satisfiable formula%s", ctxt())
		}
	case "SATISFIABLE":
		if len(models) == 0 {
			return fmt.Errorf("SATISFIABLE printed for an unsatisfiable formula%s", ctxt())
		}
		full := map[string]bool{}
		for _, n := range names {
			full[n] = env[n]
		}
		if !sem.Eval(full) {
			return fmt.Errorf("the printed assignment %v does not satisfy the formula%s", env, ctxt())
		}
	default:
		return fmt.Errorf("no status line%s", ctxt())
	}
	if sem.Size() >= 4 {
		o.Nontrivial()
	}
	return nil
}

func checkMUS(c Case, o *vf.Obs, r run, ctxt func() string) error {
	if c.Kind != "cnf" {
		return nil // -mus reads its argument as DIMACS: only claimed for .cnf files
	}
	sat := oracle.CNFSat(c.N, c.Clauses)
	// the DIMACS block is what follows the first "p cnf" line
	i := strings.Index(r.stdout, "p cnf")
	if sat {
		if i >= 0 {
			return fmt.Errorf("-mus printed a subset for a satisfiable file%s", ctxt())
		}
		return nil
	}
	if r.exit != 0 || i < 0 {
		return fmt.Errorf("-mus on an unsatisfiable file: exit status %d, subset printed=%v%s", r.exit, i >= 0, ctxt())
	}
	_, cls, err := texts.StrictDIMACS(r.stdout[i:])
	if err != nil {
		return fmt.Errorf("-mus printed a malformed DIMACS block: %v%s", err, ctxt())
	}
	if !oracle.SubMultiset(cls, c.Clauses) {
		return fmt.Errorf("-mus printed clauses %v that are not a sub-multiset of the file's%s", cls, ctxt())
	}
	if oracle.CNFSat(c.N, cls) {
		return fmt.Errorf("-mus printed a satisfiable subset%s", ctxt())
	}
	for k := range cls {
		rest := append(append([][]int{}, cls[:k]...), cls[k+1:]...)
		if !oracle.CNFSat(c.N, rest) {
			return fmt.Errorf("-mus printed a subset that is not minimal (clause %v is redundant)%s", cls[k], ctxt())
		}
	}
	o.Nontrivial()
	return nil
}

func genFlags(t *rapid.T, kind string) []string {
	sets := [][]string{{}, {}, {"-verbose"}, {"-cp"}, {"-count"}, {"-verbose", "-count"}, {"-cp", "-verbose"}}
	if kind == "cnf" {
		sets = append(sets, []string{"-certified"}, []string{"-certified"}, []string{"-mus"}, []string{"-mus"}, []string{"-certified", "-verbose"})
	}
	return append([]string{}, rapid.SampledFrom(sets).Draw(t, "flags")...)
}

func seqInts(lo, hi int) []int {
	var s []int
	for i := lo; i <= hi; i++ {
		s = append(s, i)
	}
	return s
}

func genSyntaxTree(t *rapid.T, budget *int, depth int) *oracle.F {
	*budget--
	ids := []string{"a", "b", "c1", "d_x", "Ee"}
	if *budget <= 0 || depth > 4 || gen.Chance(t, 1, 4, "leaf") {
		if gen.Chance(t, 1, 6, "group") {
			k := rapid.IntRange(1, 4).Draw(t, "k")
			perm := rapid.Permutation(append([]string{}, ids...)).Draw(t, "names")
			f := &oracle.F{Op: "unique"}
			for _, n := range perm[:k] {
				f.Kids = append(f.Kids, oracle.V(n))
			}
			return f
		}
		return oracle.V(ids[gen.Uniform(t, 0, len(ids)-1, "id")])
	}
	op := rapid.SampledFrom([]string{"not", "and", "or", "implies", "eq", "semi"}).Draw(t, "op")
	if op == "not" {
		return &oracle.F{Op: op, Kids: []*oracle.F{genSyntaxTree(t, budget, depth+1)}}
	}
	return &oracle.F{Op: op, Kids: []*oracle.F{genSyntaxTree(t, budget, depth+1), genSyntaxTree(t, budget, depth+1)}}
}

func genCase(t *rapid.T) Case {
	kind := rapid.SampledFrom([]string{"cnf", "cnf", "cnf", "opb", "opb", "wcnf", "wcnf", "bf", "bf", "bad"}).Draw(t, "kind")
	var c Case
	c.Kind = kind
	switch kind {
	case "cnf":
		switch rapid.IntRange(0, 6).Draw(t, "family") {
		case 6:
			// pigeonhole with 5..6 holes (30..42 variables) among padding clauses that hold a fresh positive literal:
			// unsatisfiable by construction, hundreds to thousands of conflicts (restarts, reductions, a certificate of
			// hundreds of lines); with one pigeon dropped: satisfiable
			holes := rapid.IntRange(5, 6).Draw(t, "holes")
			drop := gen.Chance(t, 1, 4, "dropPigeon")
			c.N, c.Clauses = gen.Pigeonhole(t, holes, drop)
			c.Known = "unsat"
			if drop {
				c.Known = "sat"
			}
			for i, k := 0, rapid.IntRange(0, 5).Draw(t, "padding"); i < k; i++ {
				c.N++
				c.Clauses = append(c.Clauses, append([]int{c.N}, gen.DistinctLits(t, c.N-1, rapid.IntRange(0, 2).Draw(t, "plen"), "p")...))
			}
			c.Clauses = rapid.Permutation(c.Clauses).Draw(t, "phpOrder")
			c.Flags = append([]string{}, rapid.SampledFrom([][]string{{}, {"-certified"}, {"-certified"}, {"-certified", "-verbose"}, {"-cp"}, {"-verbose"}}).Draw(t, "phpFlags")...)
			return c
		case 3, 4, 5: // binary-clause cliques: what -cp rewrites into cardinality constraints before solving
			c.N = gen.Uniform(t, 3, 10, "n")
			c.Clauses, _ = gen.CliqueRich(t, c.N)
			if rapid.Bool().Draw(t, "tension") {
				// clauses asking for the literals that the binary clauses exclude pairwise: every binary clause matters
				var pool []int
				for _, cl := range c.Clauses {
					if len(cl) == 2 {
						pool = append(pool, -cl[0], -cl[1])
					}
				}
				for i, k := 0, gen.Uniform(t, 2, c.N, "asks"); i < k && len(pool) > 0; i++ {
					var cl []int
					for j, ln := 0, gen.Uniform(t, 1, 3, "asklen"); j < ln; j++ {
						l := pool[gen.Uniform(t, 0, len(pool)-1, "ask")]
						dup := false
						for _, x := range cl {
							if x == l || x == -l {
								dup = true
							}
						}
						if !dup {
							cl = append(cl, l)
						}
					}
					c.Clauses = append(c.Clauses, cl)
				}
				c.Clauses = rapid.Permutation(c.Clauses).Draw(t, "order2")
			}
			c.Flags = append([]string{}, rapid.SampledFrom([][]string{{"-cp"}, {"-cp"}, {"-cp"}, {"-cp", "-verbose"}, {}, {"-count"}, {"-mus"}}).Draw(t, "cliqueFlags")...)
			return c
		case 0:
			c.N, c.Clauses = gen.SmallCNF(t, gen.CNFOpts{MinN: 1, MaxN: 10, MaxRatio: 4, MaxLen: 4, AllowEmpty: true, AllowDup: true, AllowUnit: true, UnusedVarSlack: true})
		case 1:
			c.N = gen.Uniform(t, 4, 10, "n")
			c.Clauses = gen.KSAT(t, c.N, c.N*gen.Uniform(t, 30, 60, "ratio")/10, 3)
		default:
			c.N, c.Clauses = gen.Pigeonhole(t, rapid.IntRange(2, 3).Draw(t, "holes"), gen.Chance(t, 1, 3, "drop"))
		}
	case "opb":
		if gen.Chance(t, 1, 2, "knapsack") {
			// two knapsack equalities, a weighted objective and a cost literal fixed by a unit constraint: with -cp the
			// search takes hundreds of conflicts, its restarts and constraint-database reductions included
			c.N = gen.Uniform(t, 15, 18, "n")
			for i := 0; i < 2; i++ {
				lits := gen.DistinctLits(t, c.N, gen.Uniform(t, c.N-2, c.N, "arity"), "l")
				coefs := make([]int, len(lits))
				sum := 0
				for j := range lits {
					if lits[j] < 0 {
						lits[j] = -lits[j]
					}
					coefs[j] = gen.Uniform(t, 1, 30, "a")
					sum += coefs[j]
				}
				c.Constrs = append(c.Constrs, gen.PC{Kind: "eq", Lits: lits, Coefs: coefs, K: gen.Uniform(t, sum/4, sum/2, "b")})
			}
			c.Constrs = append(c.Constrs, gen.PC{Kind: "gteq", Lits: []int{gen.Uniform(t, 1, c.N, "f")}, Coefs: []int{1}, K: 1})
			cf := oracle.Cost{Lits: make([]int, c.N), W: make([]int, c.N)}
			for v := 1; v <= c.N; v++ {
				cf.Lits[v-1], cf.W[v-1] = v, gen.Uniform(t, 1, 12, "w")
			}
			c.Cost = &cf
			c.Flags = append([]string{}, rapid.SampledFrom([][]string{{"-cp"}, {"-cp"}, {"-cp", "-verbose"}, {}}).Draw(t, "knapFlags")...)
			return c
		}
		c.N, c.Constrs = gen.PBConstrs(t, gen.PBOpts{MinN: 1, MaxN: 9, MaxConstrs: 6, MaxArity: 5})
		if gen.Chance(t, 2, 3, "objective") {
			cf := gen.CostFunc(t, c.N, true)
			if cf.W == nil {
				cf.W = make([]int, len(cf.Lits))
				for i := range cf.W {
					cf.W[i] = 1
				}
			}
			c.Cost = &cf
		}
	case "wcnf":
		c.N = gen.Uniform(t, 1, 8, "n")
		used := c.N
		if gen.Chance(t, 1, 3, "slack") {
			used = gen.Uniform(t, 1, c.N, "used")
		}
		sum := 0
		for i, m := 0, gen.Uniform(t, 1, 12, "m"); i < m; i++ {
			w := texts.WClause{Lits: gen.DistinctLits(t, used, gen.Uniform(t, 1, 3, "arity"), "l")}
			if !gen.Chance(t, 1, 3, "hard") {
				w.Weight = rapid.IntRange(1, 9).Draw(t, "w")
				sum += w.Weight
			}
			c.WCNF = append(c.WCNF, w)
		}
		c.Top = sum + 1
	case "bf":
		budget := gen.Uniform(t, 1, 15, "size")
		c.Tree = genSyntaxTree(t, &budget, 0)
		if gen.Chance(t, 1, 6, "wideGroup") {
			// an exactly-one group of 10..30 names, alone / negated / next to a small formula, all names but 2..10 fixed by
			// literals conjoined at top level
			k := gen.Uniform(t, 10, 30, "width")
			g := &oracle.F{Op: "unique"}
			for i := 0; i < k; i++ {
				g.Kids = append(g.Kids, oracle.V(fmt.Sprintf("w%d", i)))
			}
			var core *oracle.F = g
			switch rapid.IntRange(0, 3).Draw(t, "wideShape") {
			case 1:
				core = &oracle.F{Op: "not", Kids: []*oracle.F{g}}
			case 2:
				core = &oracle.F{Op: "or", Kids: []*oracle.F{{Op: "not", Kids: []*oracle.F{oracle.V("a")}}, g}}
			case 3:
				core = &oracle.F{Op: "and", Kids: []*oracle.F{g, {Op: "implies", Kids: []*oracle.F{oracle.V("w0"), oracle.V("b")}}}}
			}
			free := gen.Uniform(t, 2, 10, "free")
			perm := rapid.Permutation(seqInts(0, k-1)).Draw(t, "freeNames")
			c.Fixed = map[string]bool{}
			tree := core
			for _, i := range perm[free:] {
				n := fmt.Sprintf("w%d", i)
				val := gen.Chance(t, 1, 15, "fixedTrue")
				c.Fixed[n] = val
				var lit *oracle.F = oracle.V(n)
				if !val {
					lit = &oracle.F{Op: "not", Kids: []*oracle.F{lit}}
				}
				tree = &oracle.F{Op: "and", Kids: []*oracle.F{lit, tree}}
			}
			c.Tree = tree
		}
	default:
		switch rapid.IntRange(0, 2).Draw(t, "bad") {
		case 0:
			c.Kind = "unreadable"
			c.Suffix = rapid.SampledFrom([]string{".cnf", ".opb", ".wcnf", ".bf"}).Draw(t, "suffix")
		case 1:
			c.Kind = "unknown-suffix"
			c.N, c.Clauses = gen.SmallCNF(t, gen.CNFOpts{MinN: 1, MaxN: 4, MaxRatio: 2, MaxLen: 3})
		default:
			c.Kind = "broken"
			br := rapid.SampledFrom([][2]string{
				{".cnf", "p cnf 2 1\n1 x 0\n"}, {".cnf", "p cnf two 1\n1 2 0\n"}, {".cnf", "p cnf 1 1\n1 -3 0\n"},
				{".opb", "+1 x1 +1 x2 >= ;\n"}, {".opb", "+1 x1 +1 x2 >= 1\n"}, {".opb", "+1 y1 >= 1 ;\n"}, {".opb", "+1 x1 <> 1 ;\n"},
				{".wcnf", "p wcnf 2\n1 1 0\n"}, {".wcnf", "p wcnf 2 1 5\n5 a 0\n"},
				{".bf", "a & & b\n"}, {".bf", "(a | b\n"}, {".bf", "a b\n"}, {".bf", "\n"},
			}).Draw(t, "text")
			c.Suffix, c.Broken = br[0], br[1]
		}
	}
	if (c.Kind == "cnf" || c.Kind == "opb" || c.Kind == "wcnf") && gen.Chance(t, 1, 8, "longComment") {
		c.Comment = rapid.SampledFrom([]int{100, 3000, 4090, 4100, 5000, 9000, 70000}).Draw(t, "commentLen")
		c.Where = rapid.IntRange(0, 2).Draw(t, "where")
	}
	k := c.Kind
	if k == "unreadable" || k == "broken" {
		k = strings.TrimPrefix(c.Suffix, ".")
	}
	c.Flags = genFlags(t, k)
	return c
}

func TestMain(m *testing.M) {
	dir, err := os.MkdirTemp(os.Getenv("VERIF_OUT"), "cli-files-")
	if err != nil {
		dir, _ = os.MkdirTemp("", "cli-files-")
	}
	workDir = dir
	defer os.RemoveAll(dir)
	vf.Main(m, "C19")
}

func init() {
	vf.Register(vf.Sub[Case]{Name: "cli", Quick: 700, Thorough: 3000, Gen: genCase, Check: check, Floor: 0.5,
		Classes: map[string]float64{"kind-cnf": 0.05, "kind-opb": 0.05, "kind-wcnf": 0.05, "kind-bf": 0.05, "flag-count": 0.05, "flag-certified": 0.03, "flag-mus": 0.015, "flag-cp": 0.05, "flag-verbose": 0.05},
		Rule:    "the executable is built from the tree and run on generated .cnf (odd clause shapes, 3-SAT, pigeonhole, clique-rich formulas mostly run with -cp, pigeonhole with 5..6 holes plus padding - verdict known by construction, certificate of hundreds of lines replayed), .opb (with/without objective of either sign; knapsack equalities over 15..18 variables mostly run with -cp), .wcnf and .bf files (one in six with an exactly-one group of 10..30 names, all names but 2..10 fixed by conjoined literals) (conventional layout, n<=10; one in eight .cnf/.opb/.wcnf files holds a comment line of 100 to 70 000 bytes made of words and numbers, as first, second or last line) x flag sets {none, -verbose, -cp, -count, -verbose -count, -cp -verbose, -certified, -certified -verbose, -mus} (-certified is not combined with -cp: a RUP certificate cannot express the PB constraints that strategy learns, and the property lists the flags separately), plus unreadable paths, an unknown suffix and syntactically broken files; stdout is parsed: exactly one status line, the v line is a total model of the file, 's UNSATISFIABLE' only for unsatisfiable files, o lines strictly decreasing and ending in the brute-force optimum attained by the printed model, -count prints exactly the model count, the -certified lines replay as a RUP refutation, the -mus DIMACS block is a minimal unsatisfiable sub-multiset of the file; -verbose only adds comment lines; bad files: exit status != 0 and no answer line; non-trivial = file with >=2 constraints (or formula of size >=4, count >=2, an extracted MUS, a bad file)"})
}

func TestCorpus(t *testing.T) { vf.Corpus(t) }
func TestProp(t *testing.T)   { vf.RunAll(t) }
func TestReplay(t *testing.T) { vf.ReplayEnv(t) }
