//go:build verif

// C08 — the certificate checker only accepts consequences; unsat subsets are unsat.
package c08

import (
	"fmt"
	"reflect"
	"strings"
	"testing"

	"github.com/crillab/gophersat/explain"
	"github.com/crillab/gophersat/solver"
	"pgregory.net/rapid"
	"verifharness/gen"
	"verifharness/gs"
	"verifharness/oracle"
	"verifharness/texts"
	"verifharness/vf"
)

type Case struct {
	N       int     `json:"n"`
	Clauses [][]int `json:"clauses"`
	Cert    [][]int `json:"cert"`   // certificate lines (a clause each; [] is the empty clause)
	Source  string  `json:"source"` // how the certificate was produced (label)
	Entry   string  `json:"entry"`  // reader | chan
	Noise   bool    `json:"noise"`  // reader: interleave comment and blank lines
}

func problem(c Case) (*explain.Problem, error) {
	return explain.ParseCNF(texts.ReaderFor(gs.Dimacs(c.N, c.Clauses)))
}

func certText(c Case) string {
	var sb strings.Builder
	for i, line := range c.Cert {
		if c.Noise && i%2 == 0 {
			sb.WriteString("c a comment line\n\n")
		}
		for _, l := range line {
			fmt.Fprintf(&sb, "%d ", l)
		}
		sb.WriteString("0\n")
	}
	if c.Noise {
		sb.WriteString("\nc trailing comment\n")
	}
	return sb.String()
}

func runChecker(c Case, pb *explain.Problem) (bool, error) {
	if c.Entry == "reader" {
		return pb.Unsat(texts.ReaderFor(certText(c)))
	}
	ch := make(chan string)
	go func() {
		defer close(ch)
		for _, line := range c.Cert {
			var sb strings.Builder
			for _, l := range line {
				fmt.Fprintf(&sb, "%d ", l)
			}
			sb.WriteString("0")
			ch <- sb.String()
		}
	}()
	valid, err := pb.UnsatChan(ch)
	for range ch { // the checker may stop early (first empty clause / invalid line): let the producer finish
	}
	return valid, err
}

func check(c Case, o *vf.Obs) error {
	o.Class("source-" + c.Source)
	o.Class("entry-" + c.Entry)
	pb, err := problem(c)
	if err != nil {
		return fmt.Errorf("explain.ParseCNF rejects a well-formed text: %v", err)
	}
	before := oracle.CloneCNF(pb.Clauses)
	nbC, nbV := pb.NbClauses, pb.NbVars
	valid, err := runChecker(c, pb)
	if err != nil {
		return fmt.Errorf("checker returned an error on a syntactically correct certificate: %v", err)
	}
	o.ClassIf(valid, "checker-valid")
	o.ClassIf(!valid, "checker-invalid")

	models := oracle.Models(c.N, oracle.CNFPred(c.Clauses))
	// lines the checker examined: all of them (reader) / up to the first empty clause (chan)
	examined := c.Cert
	if c.Entry == "chan" {
		for i, line := range c.Cert {
			if len(line) == 0 {
				examined = c.Cert[:i+1]
				break
			}
		}
	}
	isCopy := func(line []int) bool {
		for _, cl := range c.Clauses {
			if oracle.Key(cl) == oracle.Key(line) {
				return true
			}
		}
		return false
	}
	for _, line := range c.Cert {
		if len(line) > 0 && !isCopy(line) {
			o.Nontrivial()
			break
		}
	}
	// direction 1: valid => every examined line is a consequence of the problem
	if valid {
		for i, line := range examined {
			for _, m := range models {
				if !oracle.ClauseTrue(line, m) {
					return fmt.Errorf("checker says valid, but line %d %v is not a consequence of the problem (falsified by its model %0*b)", i, line, c.N, m)
				}
			}
		}
	}
	// direction 2: every line RUP w.r.t. problem + earlier lines => valid
	allRup := true
	r := oracle.NewRUP(c.N, c.Clauses)
	for _, line := range examined {
		if !r.Check(line) {
			allRup = false
			break
		}
		r.Add(line)
	}
	o.ClassIf(allRup, "all-lines-rup")
	if allRup && !valid {
		return fmt.Errorf("every line is derivable by unit propagation from the problem and the earlier lines, but the checker rejects the certificate")
	}
	// reusable, same answer
	if pb.NbClauses != nbC || pb.NbVars != nbV || len(pb.Clauses) < nbC || !reflect.DeepEqual(pb.Clauses[:nbC], before[:nbC]) {
		return fmt.Errorf("checking changed the problem: NbClauses %d->%d NbVars %d->%d clauses %v -> %v", nbC, pb.NbClauses, nbV, pb.NbVars, before, pb.Clauses)
	}
	if len(pb.Clauses) != nbC {
		return fmt.Errorf("checking left %d extra clauses in the problem", len(pb.Clauses)-nbC)
	}
	valid2, err := runChecker(c, pb)
	if err != nil || valid2 != valid {
		return fmt.Errorf("same certificate checked twice on the same problem: first %v, then %v (err %v)", valid, valid2, err)
	}
	// the used problem must also answer like a fresh one on *other* certificates: the bare empty clause,
	// and the first half of this certificate, through the other entry point
	other := c
	if c.Entry == "reader" {
		other.Entry = "chan"
	} else {
		other.Entry = "reader"
	}
	followUps := [][][]int{{{}}, c.Cert[:len(c.Cert)/2]}
	for v := 1; v <= c.N; v++ { // every single-literal certificate: exposes facts left bound by the first check
		followUps = append(followUps, [][]int{{v}}, [][]int{{-v}})
	}
	for _, cert := range followUps {
		other.Cert = cert
		fresh, err := problem(c)
		if err != nil {
			return err
		}
		want, err1 := runChecker(other, fresh)
		got, err2 := runChecker(other, pb)
		if err1 != nil || err2 != nil || got != want {
			return fmt.Errorf("after checking %v, the same problem judges the certificate %v %v; a fresh copy of the problem judges it %v (errors %v, %v)", c.Cert, cert, got, want, err2, err1)
		}
	}
	return nil
}

type SubsetCase struct {
	N       int     `json:"n"`
	Clauses [][]int `json:"clauses"`
}

func checkSubset(c SubsetCase, o *vf.Obs) error {
	pb, err := explain.ParseCNF(strings.NewReader(gs.Dimacs(c.N, c.Clauses)))
	if err != nil {
		return fmt.Errorf("explain.ParseCNF rejects a well-formed text: %v", err)
	}
	sat := oracle.CNFSat(c.N, c.Clauses)
	_, _, dup, _ := gen.Shapes(c.Clauses)
	o.ClassIf(dup, "has-dup-lit")
	o.ClassIf(sat, "sat")
	o.ClassIf(!sat, "unsat")
	before := oracle.CloneCNF(pb.Clauses)
	sub, err := pb.UnsatSubset()
	if sat {
		if err == nil || sub != nil {
			return fmt.Errorf("UnsatSubset of a satisfiable problem returned %v, %v", sub, err)
		}
		return nil
	}
	if err != nil {
		return fmt.Errorf("UnsatSubset of an unsatisfiable problem failed: %v", err)
	}
	if !oracle.SubMultiset(sub.Clauses[:sub.NbClauses], c.Clauses) {
		return fmt.Errorf("UnsatSubset %v is not a sub-multiset of the input %v", sub.Clauses, c.Clauses)
	}
	if oracle.CNFSat(c.N, sub.Clauses[:sub.NbClauses]) {
		return fmt.Errorf("UnsatSubset %v is satisfiable", sub.Clauses)
	}
	if sub.NbClauses < len(c.Clauses) {
		o.Nontrivial()
	}
	if !reflect.DeepEqual(pb.Clauses[:pb.NbClauses], before) || pb.NbClauses != len(before) {
		return fmt.Errorf("UnsatSubset changed the caller's problem: %v -> %v", before, pb.Clauses)
	}
	// the problem is reusable: further extractions from the same value obey the same predicates
	for call := 2; call <= 3; call++ {
		sub, err := pb.UnsatSubset()
		if err != nil {
			return fmt.Errorf("UnsatSubset call %d on the same problem failed: %v", call, err)
		}
		if !oracle.SubMultiset(sub.Clauses[:sub.NbClauses], c.Clauses) {
			return fmt.Errorf("UnsatSubset call %d on the same problem: %v is not a sub-multiset of the input", call, sub.Clauses)
		}
		if oracle.CNFSat(c.N, sub.Clauses[:sub.NbClauses]) {
			return fmt.Errorf("UnsatSubset call %d on the same problem returned a satisfiable subset %v", call, sub.Clauses)
		}
	}
	return nil
}

// trace solves the formula with certificate generation on and returns the lines (nil on Sat).
func trace(n int, cls [][]int) ([][]int, bool) {
	gs.Arm(0, gs.DefaultStepLimit)
	defer gs.Arm(0, 0)
	res, err := gs.Solve(solver.New(solver.ParseSliceNb(oracle.CloneCNF(cls), n)), true, true)
	if err != nil {
		return nil, false
	}
	return res.Cert, res.Status == solver.Unsat
}

// genFormula: unsat-leaning formulas that are mostly not refuted by parse-time propagation,
// so that genuine refutations with learned clauses exist; duplicate literals, tautologies and a
// few unit clauses included.
func genFormula(t *rapid.T) (int, [][]int) {
	n := gen.Uniform(t, 2, 8, "n")
	m := gen.Uniform(t, 2*n, 7*n, "m")
	unitRate := rapid.SampledFrom([]int{0, 0, 1}).Draw(t, "unitRate")
	var cls [][]int
	for i := 0; i < m; i++ {
		ln := 2 + rapid.IntRange(0, 1).Draw(t, "len")
		if unitRate > 0 && gen.Chance(t, 1, 12, "unit") {
			ln = 1
		}
		cl := gen.DistinctLits(t, n, ln, "v")
		if ln > 1 && gen.Chance(t, 1, 6, "dup") {
			l := cl[gen.Uniform(t, 0, len(cl)-1, "w")]
			if gen.Chance(t, 1, 4, "taut") {
				l = -l
			}
			cl = append(cl, l)
		}
		cls = append(cls, cl)
	}
	if gen.Chance(t, 1, 12, "emptyClause") {
		// an explicit empty clause ("0" alone): the problem is unsatisfiable, and the bare empty clause is a valid certificate
		at := gen.Uniform(t, 0, len(cls), "emptyAt")
		cls = append(append(append([][]int{}, cls[:at]...), []int{}), cls[at:]...)
	}
	return n, cls
}

func genCase(t *rapid.T) Case {
	var c Case
	c.N, c.Clauses = genFormula(t)
	c.Entry = rapid.SampledFrom([]string{"reader", "chan"}).Draw(t, "entry")
	c.Noise = rapid.Bool().Draw(t, "noise")
	genuine, _ := trace(c.N, c.Clauses)
	src := rapid.SampledFrom([]string{"genuine", "genuine", "lit-repeated", "lit-repeated", "lit-dropped", "lit-flipped", "line-deleted", "lines-swapped", "random", "consequence-not-rup", "non-consequence"}).Draw(t, "source")
	if len(genuine) == 0 && src != "random" && src != "consequence-not-rup" && src != "non-consequence" {
		src = "random"
	}
	c.Source = src
	cert := oracle.CloneCNF(genuine)
	pick := func(pred func([]int) bool) int {
		var idx []int
		for i, l := range cert {
			if pred(l) {
				idx = append(idx, i)
			}
		}
		if len(idx) == 0 {
			return -1
		}
		return idx[gen.Uniform(t, 0, len(idx)-1, "pick")]
	}
	switch src {
	case "lit-repeated":
		// a genuine trace in which some lines write one of their literals several times ("3 3 0", "1 -2 1 0"): as a
		// clause it is the same line, and what follows still depends on it
		for i := range cert {
			if len(cert[i]) > 0 && gen.Chance(t, 1, 2, "repeat") {
				l := cert[i][gen.Uniform(t, 0, len(cert[i])-1, "which")]
				for k, times := 0, rapid.IntRange(1, 2).Draw(t, "times"); k < times; k++ {
					at := gen.Uniform(t, 0, len(cert[i]), "at")
					cert[i] = append(append(append([]int{}, cert[i][:at]...), l), cert[i][at:]...)
				}
			}
		}
	case "lit-dropped":
		if i := pick(func(l []int) bool { return len(l) > 0 }); i >= 0 {
			j := gen.Uniform(t, 0, len(cert[i])-1, "j")
			cert[i] = append(cert[i][:j:j], cert[i][j+1:]...)
		}
	case "lit-flipped":
		if i := pick(func(l []int) bool { return len(l) > 0 }); i >= 0 {
			j := gen.Uniform(t, 0, len(cert[i])-1, "j")
			cert[i][j] = -cert[i][j]
		}
	case "line-deleted":
		i := gen.Uniform(t, 0, len(cert)-1, "i")
		cert = append(cert[:i:i], cert[i+1:]...)
	case "lines-swapped":
		if len(cert) >= 2 {
			i := gen.Uniform(t, 0, len(cert)-2, "i")
			cert[i], cert[i+1] = cert[i+1], cert[i]
		}
	case "random":
		cert = nil
		for i, k := 0, rapid.IntRange(0, 6).Draw(t, "k"); i < k; i++ {
			cert = append(cert, gen.DistinctLits(t, c.N, rapid.IntRange(0, 3).Draw(t, "len"), "r"))
		}
	case "consequence-not-rup", "non-consequence":
		// search, with drawn choices, for a clause of the wanted kind; fall back to random
		cert = nil
		models := oracle.Models(c.N, oracle.CNFPred(c.Clauses))
		r := oracle.NewRUP(c.N, c.Clauses)
		for tries := 0; tries < 6 && len(cert) < 2; tries++ {
			cl := gen.DistinctLits(t, c.N, rapid.IntRange(1, 3).Draw(t, "len"), "q")
			cons := true
			for _, m := range models {
				if !oracle.ClauseTrue(cl, m) {
					cons = false
					break
				}
			}
			if src == "non-consequence" && !cons || src == "consequence-not-rup" && cons && !r.Check(cl) {
				cert = append(cert, cl)
			}
		}
		if gen.Chance(t, 1, 2, "thenEmpty") {
			cert = append(cert, []int{})
		}
	}
	c.Cert = cert
	return c
}

// BigCase: a DIMACS text of more than 128 KB whose clauses are each written over several lines, read by
// explain.ParseCNF. The formula holds an implication chain that unit propagation refutes, spread among thousands
// of padding clauses over the same 10 variables.
type BigCase struct {
	N        int     `json:"n"`
	Clauses  [][]int `json:"clauses"`
	Breaks   []int   `json:"breaks"`    // cyclic pattern: after how many literals a line break is inserted
	CRLF     bool    `json:"crlf"`      // line ends
	ChainLen int     `json:"chain_len"` // length of the refuted chain
}

func (c BigCase) text() string {
	nl := "\n"
	if c.CRLF {
		nl = "\r\n"
	}
	var sb strings.Builder
	fmt.Fprintf(&sb, "p cnf %d %d%s", c.N, len(c.Clauses), nl)
	k := 0
	for _, cl := range c.Clauses {
		sinceBreak := 0
		for _, l := range cl {
			fmt.Fprintf(&sb, "%d", l)
			sinceBreak++
			if sinceBreak >= c.Breaks[k%len(c.Breaks)] {
				sb.WriteString(nl)
				sinceBreak = 0
				k++
			} else {
				sb.WriteString(" ")
			}
		}
		sb.WriteString("0" + nl)
	}
	return sb.String()
}

func genBig(t *rapid.T) BigCase {
	c := BigCase{N: 10, CRLF: rapid.Bool().Draw(t, "crlf"), ChainLen: gen.Uniform(t, 3, 10, "chain")}
	perm := rapid.Permutation([]int{1, 2, 3, 4, 5, 6, 7, 8, 9, 10}).Draw(t, "perm")
	lit := func(i int) int {
		if i%2 == 0 {
			return perm[i]
		}
		return -perm[i]
	}
	// chain: l0, (l0 -> l1 v l1) ... written as clauses of 3 literals (one repeated) so that each spans lines
	chain := [][]int{{lit(0), lit(0), lit(0)}}
	for i := 1; i < c.ChainLen; i++ {
		chain = append(chain, []int{-lit(i - 1), lit(i), lit(i)})
	}
	chain = append(chain, []int{-lit(c.ChainLen - 1), -lit(c.ChainLen - 1), -lit(0)})
	m := gen.Uniform(t, 14000, 20000, "padding")
	at := map[int]int{}
	for i := range chain {
		at[gen.Uniform(t, 0, m-1, "chainAt")] = i
	}
	used := map[int]bool{}
	for i := 0; i < m; i++ {
		if j, ok := at[i]; ok && !used[j] {
			used[j] = true
			c.Clauses = append(c.Clauses, chain[j])
			continue
		}
		c.Clauses = append(c.Clauses, gen.DistinctLits(t, c.N, 3, "pad"))
	}
	for j := range chain {
		if !used[j] {
			c.Clauses = append(c.Clauses, chain[j])
		}
	}
	for i, k := 0, rapid.IntRange(1, 4).Draw(t, "pattern"); i < k; i++ {
		c.Breaks = append(c.Breaks, rapid.IntRange(1, 2).Draw(t, "break"))
	}
	return c
}

func checkBig(c BigCase, o *vf.Obs) error {
	txt := c.text()
	o.ClassIf(len(txt) > 128*1024, "text>128KB")
	o.Nontrivial()
	pb, err := explain.ParseCNF(strings.NewReader(txt))
	if err != nil {
		return fmt.Errorf("explain.ParseCNF rejects a well-formed text of %d bytes: %v", len(txt), err)
	}
	// the parsed problem must have the text's variables and models (it is the checker below that needs the right clauses)
	if want, got := oracle.Models(c.N, oracle.CNFPred(c.Clauses)), oracle.Models(c.N, oracle.CNFPred(pb.Clauses)); pb.NbVars != c.N || !reflect.DeepEqual(got, want) {
		for i, cl := range pb.Clauses {
			if i < len(c.Clauses) && !reflect.DeepEqual(cl, c.Clauses[i]) {
				return fmt.Errorf("the parsed problem has %d variables and %d models, the text %d and %d; clause %d of the text is %v, parsed as %v (text of %d bytes, clauses written over several lines)", pb.NbVars, len(got), c.N, len(want), i, c.Clauses[i], cl, len(txt))
			}
		}
		return fmt.Errorf("the parsed problem has %d variables, %d clauses and %d models; the text %d, %d and %d", pb.NbVars, len(pb.Clauses), len(got), c.N, len(c.Clauses), len(want))
	}
	// the bare empty clause is derivable by unit propagation: both entry points must accept it
	r := oracle.NewRUP(c.N, c.Clauses)
	if !r.Check(nil) {
		return fmt.Errorf("%w: harness: the chain is not refuted by unit propagation", vf.ErrInconclusive)
	}
	for _, entry := range []string{"reader", "chan"} {
		valid, err := runChecker(Case{Cert: [][]int{{}}, Entry: entry}, pb)
		if err != nil || !valid {
			return fmt.Errorf("the empty clause is derivable by unit propagation from the problem, but the checker (%s) answers %v, %v", entry, valid, err)
		}
	}
	sub, err := pb.UnsatSubset()
	if err != nil {
		return fmt.Errorf("UnsatSubset of an unsatisfiable problem failed: %v", err)
	}
	if !oracle.SubMultiset(sub.Clauses, c.Clauses) {
		return fmt.Errorf("UnsatSubset: result is not a sub-multiset of the input")
	}
	if oracle.CNFSat(c.N, sub.Clauses) {
		return fmt.Errorf("UnsatSubset: the returned subset %v is satisfiable", sub.Clauses)
	}
	return nil
}

func genSubset(t *rapid.T) SubsetCase {
	var c SubsetCase
	c.N, c.Clauses = genFormula(t)
	if gen.Chance(t, 1, 4, "repeat") {
		c.Clauses = append(c.Clauses, append([]int{}, c.Clauses[0]...))
	}
	return c
}

func init() {
	vf.Register(
		vf.Sub[Case]{Name: "checker", Quick: 12000, Thorough: 75000, Gen: genCase, Check: check, Floor: 0.4,
			Classes: map[string]float64{"checker-valid": 0.2, "checker-invalid": 0.2},
			Rule:    "CNF n<=8 (duplicate literals, tautologies) via explain.ParseCNF x certificate from: genuine solver trace; trace with a literal dropped / flipped, a line deleted, two lines swapped; random clauses; consequences that are not RUP; non-consequences; entry Unsat(io.Reader) (with comment/blank lines) or UnsatChan; oracle = truth-table entailment + independent RUP checker; asserted: valid => every examined line is a consequence; all lines RUP => valid; problem unchanged and same answer when checked again; non-trivial = >=1 non-empty line that is not a copy of an input clause"},
		vf.Sub[SubsetCase]{Name: "unsat-subset", Quick: 8000, Thorough: 50000, Gen: genSubset, Check: checkSubset, Floor: 0.15,
			Rule: "CNF n<=8 with duplicate literals and repeated clauses; UnsatSubset: unsat => sub-multiset of the input that is unsat by truth table, sat => error, caller's problem unchanged; non-trivial = unsat input and a strictly smaller subset"},
	)
}

func init() {
	vf.Register(vf.Sub[BigCase]{Name: "big-wrapped-file", Quick: 5, Thorough: 40, Gen: genBig, Check: checkBig, Floor: 0.9, Classes: map[string]float64{"text>128KB": 0.9},
		Rule: "a DIMACS text of 150..260 KB read by explain.ParseCNF: 14000..20000 three-literal clauses over 10 variables, every clause written over two or three lines (LF or CRLF), among them an implication chain of 3..10 steps (each clause repeating a literal) that unit propagation refutes; asserted: the parsed clause list equals the text's, the bare empty clause is accepted by both checker entry points, UnsatSubset returns an unsatisfiable sub-multiset"})
}

func TestMain(m *testing.M)   { vf.Main(m, "C08") }
func TestCorpus(t *testing.T) { vf.Corpus(t) }
func TestProp(t *testing.T)   { vf.RunAll(t) }
func TestReplay(t *testing.T) { vf.ReplayEnv(t) }

// native fuzz targets (thorough tier): the fuzzer mutates the byte stream that rapid decodes into generator choices
func FuzzChecker(f *testing.F) { vf.FuzzNamed(f, "C08", "checker") }

// ---- UnsatSubset with real search inside: pigeonhole core plus padding --------------------------------------

// PHPSubset: the pigeonhole formula with Holes holes (minimally unsatisfiable) shuffled among padding clauses that
// each hold a positive literal of a fresh variable: every unsatisfiable subset contains the whole pigeonhole formula.
// The certified solve that UnsatSubset runs takes hundreds to thousands of conflicts (restarts, reductions, learned
// clauses with tens of literals in the certificate it checks).
type PHPSubset struct {
	Holes int     `json:"holes"`
	Pad   [][]int `json:"pad"`
	Order []int   `json:"order"`
}

func checkPHPSubset(c PHPSubset, o *vf.Obs) error {
	holes, pigeons := c.Holes, c.Holes+1
	v := func(p, h int) int { return p*holes + h + 1 }
	var core [][]int
	for p := 0; p < pigeons; p++ {
		var cl []int
		for h := 0; h < holes; h++ {
			cl = append(cl, v(p, h))
		}
		core = append(core, cl)
	}
	for h := 0; h < holes; h++ {
		for p := 0; p < pigeons; p++ {
			for q := p + 1; q < pigeons; q++ {
				core = append(core, []int{-v(p, h), -v(q, h)})
			}
		}
	}
	all := append(oracle.CloneCNF(core), oracle.CloneCNF(c.Pad)...)
	for i := len(all) - 1; i > 0 && len(c.Order) > 0; i-- {
		j := (c.Order[i%len(c.Order)] + i*7) % (i + 1)
		all[i], all[j] = all[j], all[i]
	}
	nv := oracle.MaxVar(all)
	o.Class(fmt.Sprintf("holes-%d", holes))
	o.Nontrivial()
	pb, err := explain.ParseCNF(strings.NewReader(gs.Dimacs(nv, all)))
	if err != nil {
		return fmt.Errorf("explain.ParseCNF rejects a well-formed text: %v", err)
	}
	before := oracle.CloneCNF(pb.Clauses)
	for round := 1; round <= 2; round++ {
		sub, err := pb.UnsatSubset()
		if err != nil {
			return fmt.Errorf("call %d: UnsatSubset of an unsatisfiable problem (pigeonhole, %d holes, plus %d padding clauses) failed: %v", round, holes, len(c.Pad), err)
		}
		if !reflect.DeepEqual(pb.Clauses[:len(before)], before) || len(pb.Clauses) != len(before) {
			return fmt.Errorf("call %d: UnsatSubset changed the problem", round)
		}
		if !oracle.SubMultiset(sub.Clauses, all) {
			return fmt.Errorf("call %d: the result is not a sub-multiset of the input", round)
		}
		if !oracle.SubMultiset(core, sub.Clauses) {
			return fmt.Errorf("call %d: the result (%d clauses) lacks a clause of the pigeonhole formula, which is minimally unsatisfiable: the result is satisfiable", round, len(sub.Clauses))
		}
	}
	// and the certificate of a solver is accepted by the checker, through both entry points
	cert, unsat := trace(nv, all)
	if !unsat {
		return fmt.Errorf("%w: harness: the solver did not answer Unsat", vf.ErrInconclusive)
	}
	o.ClassIf(len(cert) >= 100, "certificate>=100-lines")
	for _, entry := range []string{"reader", "chan"} {
		valid, err := runChecker(Case{Cert: cert, Entry: entry}, pb)
		if err != nil || !valid {
			if bad, refuted := oracle.CheckTrace(nv, all, cert); bad < 0 && refuted {
				return fmt.Errorf("a RUP refutation of %d lines (replayed by the harness's checker) is rejected by the checker (%s): %v, %v", len(cert), entry, valid, err)
			}
		}
	}
	return nil
}

func genPHPSubset(t *rapid.T) PHPSubset {
	sizes := []int{4, 5, 6, 6}
	if vf.Thorough() {
		sizes = append(sizes, 7)
	}
	c := PHPSubset{Holes: rapid.SampledFrom(sizes).Draw(t, "holes")}
	n := (c.Holes + 1) * c.Holes
	fresh := rapid.IntRange(1, 4).Draw(t, "fresh")
	for i, k := 0, rapid.IntRange(0, 12).Draw(t, "pad"); i < k; i++ {
		cl := []int{n + 1 + rapid.IntRange(0, fresh-1).Draw(t, "f")}
		cl = append(cl, gen.DistinctLits(t, n, rapid.IntRange(0, 2).Draw(t, "plen"), "p")...)
		c.Pad = append(c.Pad, cl)
	}
	for i := 0; i < 16; i++ {
		c.Order = append(c.Order, rapid.IntRange(0, 1000).Draw(t, "o"))
	}
	return c
}

func init() {
	vf.Register(vf.Sub[PHPSubset]{Name: "pigeonhole-plus-padding", Quick: 10, Thorough: 100, Gen: genPHPSubset, Check: checkPHPSubset, Floor: 0.9,
		Rule: "the pigeonhole formula with 4..6 holes (7 in the thorough tier) shuffled among 0..12 padding clauses that each hold a positive literal of a fresh variable; UnsatSubset (twice) must return a sub-multiset that contains the whole pigeonhole formula and leave the problem unchanged; a solver's certificate for the problem (hundreds of lines), replayed by the harness's RUP checker, must be accepted by both entry points of the checker"})
}
