//go:build verif

// C15 — at-most-one detection preserves the set of models.
package c15

import (
	"fmt"
	"testing"

	"github.com/crillab/gophersat/solver"
	"pgregory.net/rapid"
	"verifharness/gen"
	"verifharness/gs"
	"verifharness/oracle"
	"verifharness/vf"
)

type Case struct {
	Front   string       `json:"front"` // cnf | pb
	N       int          `json:"n"`
	Clauses [][]int      `json:"clauses"`          // cnf: clauses; pb: each clause given as PropClause
	Extra   []gen.PC     `json:"extra,omitempty"`  // pb: additional PB constraints
	Cost    *oracle.Cost `json:"cost,omitempty"`   // optional cost function
	Shapes  []string     `json:"shapes,omitempty"` // labels of the generated building blocks
}

func build(c Case) *solver.Problem {
	var pb *solver.Problem
	if c.Front == "cnf" {
		pb = solver.ParseSliceNb(oracle.CloneCNF(c.Clauses), c.N)
	} else {
		var cs []solver.PBConstr
		for _, cl := range c.Clauses {
			cs = append(cs, solver.PropClause(append([]int{}, cl...)...))
		}
		cs = append(cs, gs.PBConstrsOf(c.Extra)...)
		cs = append(cs, solver.GtEq([]int{c.N}, []int{1}, 0)) // declares variable N (trivially true, dropped)
		pb = solver.ParsePBConstrs(cs)
	}
	if c.Cost != nil && pb.Status != solver.Unsat {
		ls := make([]solver.Lit, len(c.Cost.Lits))
		for i, l := range c.Cost.Lits {
			ls[i] = solver.IntToLit(int32(l))
		}
		pb.SetCostFunc(ls, append([]int{}, c.Cost.W...))
	}
	return pb
}

func sameSet(a, b []uint64) bool {
	if len(a) != len(b) {
		return false
	}
	for i := range a {
		if a[i] != b[i] {
			return false
		}
	}
	return true
}

func check(c Case, o *vf.Obs) error {
	gs.Arm(0, gs.DefaultStepLimit)
	defer gs.Arm(0, 0)
	o.Class("front-" + c.Front)
	for _, s := range c.Shapes {
		o.Class("shape-" + s)
	}
	var sems []oracle.Constr
	for _, cl := range c.Clauses {
		sems = append(sems, oracle.Clause(cl...))
	}
	sems = append(sems, gen.Sems(c.Extra)...)
	truth := oracle.Models(c.N, func(m uint64) bool { return oracle.AllTrue(sems, m) })

	pb := build(c)
	if pb.Status != solver.Unsat && pb.NbVars != c.N {
		return fmt.Errorf("%w: harness: parsed problem has %d variables, expected %d", vf.ErrInconclusive, pb.NbVars, c.N)
	}
	before := oracle.Models(c.N, gs.ProblemPred(pb))
	if !sameSet(before, truth) {
		return fmt.Errorf("%w: harness: problem evaluator disagrees with the truth table before detection (%d vs %d models)", vf.ErrInconclusive, len(before), len(truth))
	}
	nbClausesBefore := len(pb.Clauses)
	nbVars := pb.NbVars
	if pb.Status != solver.Unsat {
		pb.DetectAtMostOne()
	}
	changed := false
	for _, cl := range pb.Clauses {
		if !cl.PseudoBoolean() && cl.Cardinality() > 1 {
			changed = true
		}
	}
	if changed || len(pb.Clauses) != nbClausesBefore {
		o.Class("detection-changed-problem")
		o.Nontrivial()
	}
	if pb.NbVars != nbVars {
		return fmt.Errorf("DetectAtMostOne changed the number of variables: %d -> %d", nbVars, pb.NbVars)
	}
	after := oracle.Models(c.N, gs.ProblemPred(pb))
	if !sameSet(after, truth) {
		extra, missing := diff(after, truth)
		return fmt.Errorf("DetectAtMostOne changed the set of models: %d before, %d after (assignments gained %v, lost %v; bit i = variable i+1)", len(truth), len(after), extra, missing)
	}
	// consequences, through the solver (default strategy)
	st := solver.New(pb).Solve()
	if (st == solver.Sat) != (len(truth) > 0) {
		return fmt.Errorf("after DetectAtMostOne Solve = %v, the problem has %d models", st, len(truth))
	}
	pb2 := build(c)
	if pb2.Status != solver.Unsat {
		pb2.DetectAtMostOne()
	}
	if got := solver.New(pb2).CountModels(); got != len(truth) {
		return fmt.Errorf("after DetectAtMostOne CountModels = %d, the problem has %d models", got, len(truth))
	}
	// the same consequences under the cutting-planes strategy, which is what the command line tool combines
	// detection with
	pbc := build(c)
	if pbc.Status != solver.Unsat {
		pbc.DetectAtMostOne()
	}
	sc := solver.New(pbc)
	sc.CuttingPlanes = true
	if st := sc.Solve(); (st == solver.Sat) != (len(truth) > 0) {
		return fmt.Errorf("after DetectAtMostOne, Solve with the cutting-planes strategy = %v, the problem has %d models", st, len(truth))
	} else if st == solver.Sat {
		if m := oracle.MaskOf(sc.Model()); !oracle.AllTrue(sems, m) {
			return fmt.Errorf("after DetectAtMostOne, the model found with the cutting-planes strategy violates a constraint of the problem")
		}
	}
	pbc2 := build(c)
	if pbc2.Status != solver.Unsat {
		pbc2.DetectAtMostOne()
	}
	sc2 := solver.New(pbc2)
	sc2.CuttingPlanes = true
	if got := sc2.CountModels(); got != len(truth) {
		return fmt.Errorf("after DetectAtMostOne, CountModels with the cutting-planes strategy = %d, the problem has %d models", got, len(truth))
	}
	if c.Cost != nil {
		pb3 := build(c)
		if pb3.Status != solver.Unsat {
			pb3.DetectAtMostOne()
		}
		res := solver.New(pb3).Optimal(nil, nil)
		best, feasible, _ := oracle.Minimum(c.N, func(m uint64) bool { return oracle.AllTrue(sems, m) }, c.Cost.Of)
		if feasible != (res.Status == solver.Sat) || feasible && res.Weight != best {
			return fmt.Errorf("after DetectAtMostOne Optimal = (%v, %d), truth: feasible=%v minimum=%d", res.Status, res.Weight, feasible, best)
		}
	}
	return nil
}

func diff(a, b []uint64) (onlyA, onlyB []uint64) {
	inB := map[uint64]bool{}
	for _, x := range b {
		inB[x] = true
	}
	inA := map[uint64]bool{}
	for _, x := range a {
		inA[x] = true
		if !inB[x] && len(onlyA) < 4 {
			onlyA = append(onlyA, x)
		}
	}
	for _, x := range b {
		if !inA[x] && len(onlyB) < 4 {
			onlyB = append(onlyB, x)
		}
	}
	return
}

// clique returns the pairwise clauses (not l_i or not l_j) over the given literals.
func clique(ls []int) [][]int {
	var out [][]int
	for i := range ls {
		for j := i + 1; j < len(ls); j++ {
			out = append(out, []int{-ls[i], -ls[j]})
		}
	}
	return out
}

// genBigGroup: one at-most-one group of 5..7 variables (pairwise encoded), one or two long clauses over most of the
// group with some members negated and some outsiders, and a few short clauses linking members and outsiders: after
// detection the cardinality constraint is the reason of most propagations, conflicts are analysed through it, and
// counting keeps the search going after each of them.
func genBigGroup(t *rapid.T) Case {
	k := gen.Uniform(t, 5, 7, "k")
	c := Case{Front: "cnf", N: k + gen.Uniform(t, 2, 5, "others"), Shapes: []string{"one-big-group"}}
	perm := rapid.Permutation(seq(1, c.N)).Draw(t, "perm")
	group, others := perm[:k], perm[k:]
	for i := range group {
		for j := i + 1; j < k; j++ {
			c.Clauses = append(c.Clauses, []int{-group[i], -group[j]})
		}
	}
	for i, m := 0, rapid.IntRange(1, 2).Draw(t, "long"); i < m; i++ {
		var cl []int
		for _, g := range group {
			switch rapid.IntRange(0, 5).Draw(t, "how") {
			case 0: // left out
			case 1:
				cl = append(cl, -g)
			default:
				cl = append(cl, g)
			}
		}
		for _, o := range others {
			if gen.Chance(t, 1, 3, "outsider") {
				if rapid.Bool().Draw(t, "neg") {
					o = -o
				}
				cl = append(cl, o)
			}
		}
		if len(cl) >= 2 {
			c.Clauses = append(c.Clauses, cl)
		}
	}
	for i, m := 0, gen.Uniform(t, 2, 7, "links"); i < m; i++ {
		c.Clauses = append(c.Clauses, gen.DistinctLits(t, c.N, gen.Uniform(t, 2, 3, "llen"), "l"))
	}
	c.Clauses = rapid.Permutation(c.Clauses).Draw(t, "order")
	return c
}

func seq(lo, hi int) []int {
	var s []int
	for i := lo; i <= hi; i++ {
		s = append(s, i)
	}
	return s
}

func genCase(front string) func(t *rapid.T) Case {
	return func(t *rapid.T) Case {
		c := Case{Front: front, N: gen.Uniform(t, 3, 9, "n")}
		if gen.Chance(t, 1, 3, "rich") {
			// the shared clique-rich generator, with its big-group family, over up to 12 variables
			c.N = gen.Uniform(t, 6, 12, "n2")
			c.Clauses, c.Shapes = gen.CliqueRich(t, c.N)
			if gen.Chance(t, 1, 3, "cost") {
				cf := gen.CostFunc(t, c.N, false)
				if cf.W == nil {
					cf.W = make([]int, len(cf.Lits))
					for i := range cf.W {
						cf.W[i] = 1
					}
				}
				c.Cost = &cf
			}
			return c
		}
		blocks := rapid.IntRange(1, 4).Draw(t, "blocks")
		for b := 0; b < blocks; b++ {
			switch rapid.IntRange(0, 6).Draw(t, "block") {
			case 0, 1: // complete clique over literals of one or mixed polarity
				k := gen.Uniform(t, 2, min(5, c.N), "k")
				ls := gen.DistinctLits(t, c.N, k, "q")
				if rapid.Bool().Draw(t, "allPositive") {
					for i := range ls {
						if ls[i] < 0 {
							ls[i] = -ls[i]
						}
					}
				}
				c.Clauses = append(c.Clauses, clique(ls)...)
				c.Shapes = append(c.Shapes, fmt.Sprintf("clique-%d", k))
			case 2: // clique with one edge missing
				k := gen.Uniform(t, 3, min(5, c.N), "k")
				cl := clique(gen.DistinctLits(t, c.N, k, "q"))
				i := gen.Uniform(t, 0, len(cl)-1, "drop")
				c.Clauses = append(c.Clauses, append(cl[:i:i], cl[i+1:]...)...)
				c.Shapes = append(c.Shapes, "clique-minus-edge")
			case 3: // two overlapping cliques
				k := gen.Uniform(t, 3, min(6, c.N), "k")
				ls := gen.DistinctLits(t, c.N, k, "q")
				c.Clauses = append(c.Clauses, clique(ls[:k-1])...)
				c.Clauses = append(c.Clauses, clique(ls[1:])...)
				c.Shapes = append(c.Shapes, "overlapping-cliques")
			case 4: // repeated binary clause
				cl := gen.DistinctLits(t, c.N, 2, "r")
				c.Clauses = append(c.Clauses, cl, append([]int{}, cl...))
				c.Shapes = append(c.Shapes, "repeated-binary")
			case 5: // loose binary clauses
				for i, k := 0, rapid.IntRange(1, 4).Draw(t, "loose"); i < k; i++ {
					c.Clauses = append(c.Clauses, gen.DistinctLits(t, c.N, 2, "b"))
				}
				c.Shapes = append(c.Shapes, "loose-binaries")
			default: // longer clauses
				for i, k := 0, rapid.IntRange(1, 3).Draw(t, "long"); i < k; i++ {
					c.Clauses = append(c.Clauses, gen.DistinctLits(t, c.N, gen.Uniform(t, 3, min(4, c.N), "len"), "l"))
				}
				c.Shapes = append(c.Shapes, "long-clauses")
			}
		}
		if gen.Chance(t, 1, 6, "unit") {
			c.Clauses = append(c.Clauses, []int{gen.Lit(t, c.N, "u")})
			c.Shapes = append(c.Shapes, "unit")
		}
		c.Clauses = rapid.Permutation(c.Clauses).Draw(t, "order")
		if front == "pb" {
			for i, k := 0, rapid.IntRange(0, 2).Draw(t, "extra"); i < k; i++ {
				c.Extra = append(c.Extra, gen.PBConstr(t, c.N, gen.PBOpts{MaxArity: 5}, false))
			}
			if c.N >= 3 && gen.Chance(t, 1, 3, "shrinksToTwo") {
				// a weighted constraint that the facts of the problem shrink to two literals, one of them heavier than the
				// other (what is left is not a binary clause), over members of the cliques, with the fact it depends on
				var members []int
				for _, cl := range c.Clauses {
					if len(cl) == 2 {
						members = append(members, cl...)
					}
				}
				if len(members) >= 2 {
					a := members[gen.Uniform(t, 0, len(members)-1, "a")]
					b := members[gen.Uniform(t, 0, len(members)-1, "b")]
					f := gen.Lit(t, c.N, "fact")
					if abs(a) != abs(b) && abs(a) != abs(f) && abs(b) != abs(f) {
						w := rapid.IntRange(2, 3).Draw(t, "heavy")
						ls, co := []int{a, b, -f}, []int{w, 1, 1}
						if rapid.Bool().Draw(t, "factInTheMiddle") {
							ls, co = []int{a, -f, b}, []int{w, 1, 1}
						}
						c.Extra = append(c.Extra, gen.PC{Kind: "gteq", Lits: ls, Coefs: co, K: w})
						c.Extra = append(c.Extra, gen.PC{Kind: "gteq", Lits: []int{f}, Coefs: []int{1}, K: 1})
						if rapid.Bool().Draw(t, "factFirst") {
							c.Extra[len(c.Extra)-1], c.Extra[len(c.Extra)-2] = c.Extra[len(c.Extra)-2], c.Extra[len(c.Extra)-1]
						}
						c.Shapes = append(c.Shapes, "weighted-constraint-shrinking-to-two-literals")
					}
				}
			}
		}
		if gen.Chance(t, 1, 3, "cost") {
			cf := gen.CostFunc(t, c.N, false)
			if cf.W == nil {
				cf.W = make([]int, len(cf.Lits))
				for i := range cf.W {
					cf.W[i] = 1
				}
			}
			c.Cost = &cf
		}
		return c
	}
}

func abs(a int) int {
	if a < 0 {
		return -a
	}
	return a
}

func min(a, b int) int {
	if a < b {
		return a
	}
	return b
}

func init() {
	tail := ": 1..4 building blocks (complete cliques of 2..5 literals of one or mixed polarity, clique minus one edge, two overlapping cliques, repeated binary clause, loose binary clauses, longer clauses, sometimes a unit clause; in a third of the cases the shared clique-rich generator over 6..12 variables, whose extra family is an at-most-one group of 5..7 variables with clauses over most of the group and clauses linking it to other variables), clause order shuffled, optional cost function; oracle = truth table of the clauses as written; the parsed problem is evaluated (without solving) from its exported data before and after DetectAtMostOne: same variables, same model set; then Solve / CountModels / Optimal after detection equal the truth, with the default strategy and (Solve, CountModels) with the cutting-planes strategy; non-trivial = detection changed the problem"
	vf.Register(
		vf.Sub[Case]{Name: "cnf", Quick: 4000, Thorough: 80000, Gen: genCase("cnf"), Check: check, Floor: 0.25, Rule: "CNF n in 3..9 via ParseSliceNb" + tail},
		vf.Sub[Case]{Name: "big-group-search", Quick: 8000, Thorough: 100000, Gen: genBigGroup, Check: check, Floor: 0.8, Rule: "CNF over 7..12 variables via ParseSliceNb: one pairwise-encoded at-most-one group of 5..7 variables, 1..2 long clauses over most of the group (members of either sign, some outsiders), 2..7 clauses of 2..3 literals over all variables, clause order shuffled: the detected constraint is the reason of most propagations during the search that Solve and CountModels perform after detection" + tail},
		vf.Sub[Case]{Name: "pb", Quick: 2000, Thorough: 100000, Gen: genCase("pb"), Check: check, Floor: 0.2, Rule: "the same clauses given as PropClause constraints plus 0..2 PB constraints (in a third of the cases also a weighted constraint over clique members that a unit constraint shrinks to two literals of different weights) via ParsePBConstrs" + tail},
	)
}

func TestMain(m *testing.M)   { vf.Main(m, "C15") }
func TestCorpus(t *testing.T) { vf.Corpus(t) }
func TestProp(t *testing.T)   { vf.RunAll(t) }
func TestReplay(t *testing.T) { vf.ReplayEnv(t) }

// native fuzz targets (thorough tier): the fuzzer mutates the byte stream that rapid decodes into generator choices
func FuzzDetect(f *testing.F)   { vf.FuzzNamed(f, "C15", "cnf") }
func FuzzBigGroup(f *testing.F) { vf.FuzzNamed(f, "C15", "big-group-search") }
