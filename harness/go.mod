module verifharness

go 1.23

toolchain go1.23.5

require (
	github.com/crillab/gophersat v0.0.0
	pgregory.net/rapid v1.3.0
)

replace github.com/crillab/gophersat => /repo
