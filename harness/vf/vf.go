// Package vf is the small framework shared by all property packages: it runs
// rapid-driven and enumerated sub-checks, records what was generated (counts,
// class histogram, distinct non-trivial cases, samples), saves the structured
// failing case as JSON (the replay file), replays corpus / known-finding
// witnesses, and writes per-process statistics that the ./check driver merges
// into evidence/<ID>.json.
//
// Nothing in here depends on gophersat.
package vf

import (
	"bytes"
	"encoding/binary"
	"encoding/json"
	"errors"
	"flag"
	"fmt"
	"hash/fnv"
	"os"
	"path/filepath"
	"regexp"
	"runtime/debug"
	"sort"
	"strconv"
	"strings"
	"testing"

	"pgregory.net/rapid"
)

// ---------------------------------------------------------------------------
// environment

type Env struct {
	Tier    string // quick | thorough
	Seed    uint64
	Shard   int
	NShards int
	Out     string  // directory for stats / fail files ("" = none)
	Root    string  // /verif
	Scale   float64 // multiplier for case counts
	Only    string  // run only the sub with this name ("" = all)
}

var env Env

func envInt(k string, def int) int {
	if v := os.Getenv(k); v != "" {
		if n, err := strconv.Atoi(v); err == nil {
			return n
		}
	}
	return def
}

func loadEnv() {
	env.Tier = os.Getenv("VERIF_TIER")
	if env.Tier != "thorough" {
		env.Tier = "quick"
	}
	s := envInt("VERIF_SEED", 1)
	if s <= 0 {
		s = 7919 - s // remap 0 and negatives to fixed non-zero values
	}
	env.Shard = envInt("VERIF_SHARD", 0)
	env.NShards = envInt("VERIF_NSHARDS", 1)
	env.Seed = uint64(s)*1000 + uint64(env.Shard)
	env.Out = os.Getenv("VERIF_OUT")
	env.Root = os.Getenv("VERIF_ROOT")
	if env.Root == "" {
		env.Root = "/verif"
	}
	env.Scale = 1
	if v := os.Getenv("VERIF_SCALE"); v != "" {
		if f, err := strconv.ParseFloat(v, 64); err == nil && f > 0 {
			env.Scale = f
		}
	}
	env.Only = os.Getenv("VERIF_ONLY")
}

// Tier returns the current tier.
func Tier() string { return env.Tier }

// Thorough reports whether the thorough tier is running.
func Thorough() bool { return env.Tier == "thorough" }

// Shard returns (shard, nshards).
func Shard() (int, int) { return env.Shard, env.NShards }

// Root returns the /verif directory.
func Root() string { return env.Root }

// ---------------------------------------------------------------------------
// observations made by a check about one case

// Obs collects what a check learnt about one case.
type Obs struct {
	classes    []string
	nontrivial bool
	excluded   string
	known      string
	inconcl    string
}

// Class labels the case (histogram in the evidence).
func (o *Obs) Class(name string) { o.classes = append(o.classes, name) }

// ClassIf labels the case when cond holds.
func (o *Obs) ClassIf(cond bool, name string) {
	if cond {
		o.classes = append(o.classes, name)
	}
}

// Nontrivial marks the case as non-trivial by the sub-check's stated rule.
func (o *Obs) Nontrivial() { o.nontrivial = true }

// Exclude says the case was steered away from (not judged) for the given reason.
func (o *Obs) Exclude(reason string) { o.excluded = reason }

// Known attributes a failure of this case to the open finding with that id.
func (o *Obs) Known(id string) { o.known = id }

// Inconclusive says a resource bound was hit: neither pass nor fail.
func (o *Obs) Inconclusive(why string) { o.inconcl = why }

// ---------------------------------------------------------------------------
// statistics

type Stats struct {
	Property     string             `json:"property"`
	Sub          string             `json:"sub"`
	Tier         string             `json:"tier"`
	Seed         uint64             `json:"seed"`
	Shard        int                `json:"shard"`
	Rule         string             `json:"rule"`
	Exhaustive   bool               `json:"exhaustive"`
	Evaluations  int                `json:"evaluations"`
	Nontrivial   int                `json:"nontrivial"`
	Distinct     int                `json:"distinct_nontrivial"`
	Classes      map[string]int     `json:"classes"`
	Excluded     map[string]int     `json:"excluded,omitempty"`
	KnownHits    map[string]int     `json:"known_hits,omitempty"`
	Inconclusive map[string]int     `json:"inconclusive,omitempty"`
	Samples      []json.RawMessage  `json:"samples"`
	Floor        float64            `json:"floor"`
	ClassFloors  map[string]float64 `json:"class_floors,omitempty"`
	Failed       bool               `json:"failed"`
	FailFile     string             `json:"fail_file,omitempty"`
	FailError    string             `json:"fail_error,omitempty"`
	HarnessError string             `json:"harness_error,omitempty"`
	Requested    int                `json:"requested"`
	hashes       map[uint64]struct{}
	sampleAt     int
}

func newStats(prop, sub, rule string) *Stats {
	return &Stats{Property: prop, Sub: sub, Tier: env.Tier, Seed: env.Seed, Shard: env.Shard, Rule: rule,
		Classes: map[string]int{}, Excluded: map[string]int{}, KnownHits: map[string]int{}, Inconclusive: map[string]int{},
		hashes: map[uint64]struct{}{}, sampleAt: 1}
}

const maxHashes = 4_000_000

func (st *Stats) add(raw []byte, o *Obs) {
	st.Evaluations++
	for _, c := range o.classes {
		st.Classes[c]++
	}
	if o.excluded != "" {
		st.Excluded[o.excluded]++
	}
	if o.inconcl != "" {
		st.Inconclusive[o.inconcl]++
	}
	if o.nontrivial {
		st.Nontrivial++
		h := fnv.New64a()
		h.Write(raw)
		k := h.Sum64()
		if _, ok := st.hashes[k]; !ok && len(st.hashes) < maxHashes {
			st.hashes[k] = struct{}{}
			if len(st.hashes) == st.sampleAt && len(st.Samples) < 4 {
				st.Samples = append(st.Samples, json.RawMessage(append([]byte(nil), raw...)))
				st.sampleAt *= 12
			}
		}
	}
}

func (st *Stats) write() {
	st.Distinct = len(st.hashes)
	if env.Out == "" {
		return
	}
	base := fmt.Sprintf("%s-%d", st.Sub, env.Shard)
	b, _ := json.MarshalIndent(st, "", " ")
	_ = os.WriteFile(filepath.Join(env.Out, "stats-"+base+".json"), b, 0o644)
	hb := make([]byte, 0, 8*len(st.hashes))
	keys := make([]uint64, 0, len(st.hashes))
	for k := range st.hashes {
		keys = append(keys, k)
	}
	sort.Slice(keys, func(i, j int) bool { return keys[i] < keys[j] })
	for _, k := range keys {
		hb = binary.LittleEndian.AppendUint64(hb, k)
	}
	_ = os.WriteFile(filepath.Join(env.Out, "hashes-"+base+".bin"), hb, 0o644)
}

// ---------------------------------------------------------------------------
// failing-case files

// CaseFile is the on-disk form of a replayable case.
type CaseFile struct {
	Property string          `json:"property"`
	Sub      string          `json:"sub"`
	Error    string          `json:"error,omitempty"`
	Note     string          `json:"note,omitempty"`
	Case     json.RawMessage `json:"case"`
}

func saveCase(path, prop, sub string, raw []byte, errText string) {
	cf := CaseFile{Property: prop, Sub: sub, Error: errText, Case: raw}
	b, _ := json.MarshalIndent(cf, "", " ")
	_ = os.WriteFile(path, b, 0o644)
}

// ---------------------------------------------------------------------------
// panics → errors

// StepLimit is the sentinel a hook panics with when the clock-free watchdog fires.
type StepLimit struct{ Where string }

func (s StepLimit) Error() string { return "step limit exceeded in " + s.Where }

// ErrInconclusive wraps resource-bound hits.
var ErrInconclusive = errors.New("inconclusive")

var frameRe = regexp.MustCompile(`(?m)^((?:github\.com/crillab/gophersat|main)[./][^\n]*)\n\s+(\S+?):(\d+)`)
var argsRe = regexp.MustCompile(`\([^()]*\)$`)

// PanicSite extracts the top gophersat frames from a stack.
func PanicSite(stack []byte) string {
	ms := frameRe.FindAllSubmatch(stack, 4)
	var parts []string
	for _, m := range ms {
		fn := argsRe.ReplaceAllString(strings.TrimSpace(string(m[1])), "")
		fn = strings.TrimPrefix(fn, "github.com/crillab/gophersat/")
		parts = append(parts, fmt.Sprintf("%s@%s:%s", fn, filepath.Base(string(m[2])), m[3]))
	}
	return strings.Join(parts, " < ")
}

// Safely runs f, turning a panic into an error that names the panic site.
func Safely(f func() error) (err error) {
	defer func() {
		if r := recover(); r != nil {
			if sl, ok := r.(StepLimit); ok {
				err = fmt.Errorf("%w: %s", ErrInconclusive, sl.Error())
				return
			}
			if e, ok := r.(error); ok && errors.Is(e, ErrInconclusive) {
				err = e
				return
			}
			if msg := fmt.Sprint(r); strings.HasPrefix(msg, "verif: step limit exceeded") {
				// the clock-free watchdog of the verif hooks (solver/verif_on.go)
				err = fmt.Errorf("%w: %s", ErrInconclusive, msg)
				return
			}
			err = fmt.Errorf("panic: %v [at %s]", r, PanicSite(debug.Stack()))
		}
	}()
	return f()
}

// ---------------------------------------------------------------------------
// sub-checks

type runner interface {
	name() string
	run(t *testing.T, prop string)
	replay(raw json.RawMessage) error
	fuzz(f *testing.F, prop string)
}

func (s *Sub[C]) fuzz(f *testing.F, prop string)  { Fuzz(f, prop, *s) }
func (e *Enum[C]) fuzz(f *testing.F, prop string) { f.Skip("enumerated sub-check: nothing to fuzz") }

// FuzzNamed runs the registered sub-check called sub under the native fuzzer (see Fuzz).
func FuzzNamed(f *testing.F, prop, sub string) {
	r := find(sub)
	if r == nil {
		f.Fatalf("vf: no sub-check %q in %s", sub, prop)
	}
	r.fuzz(f, prop)
}

// Sub is a rapid-driven sub-check over cases of type C.
type Sub[C any] struct {
	Name     string
	Rule     string // how cases are generated and what makes one non-trivial
	Quick    int    // rapid checks in the quick tier
	Thorough int    // rapid checks per shard in the thorough tier
	Gen      func(t *rapid.T) C
	Check    func(c C, o *Obs) error
	Floor    float64            // minimal share of non-trivial cases (harness error below it)
	Classes  map[string]float64 // minimal share per class label
	Journal  bool               // write the current case before executing it (library goroutines may crash the process)
	// StepLimitFails says that hitting the step limit is a failure of the property for this case.
	StepLimitFails func(c C) bool
}

// Enum is an exhaustively enumerated sub-check.
type Enum[C any] struct {
	Name  string
	Rule  string
	Each  func(tier string, shard, nshards int, yield func(C) bool) // must be deterministic
	Check func(c C, o *Obs) error
	// Exhaustive is reported in the evidence when all shards ran.
}

var (
	registry []runner
	propID   string
)

// Register adds sub-checks to the package's registry.
func Register(rs ...interface{ runnerOf() runner }) {
	for _, r := range rs {
		registry = append(registry, r.runnerOf())
	}
}

func (s Sub[C]) runnerOf() runner  { return &s }
func (e Enum[C]) runnerOf() runner { return &e }

func (s *Sub[C]) name() string  { return s.Name }
func (e *Enum[C]) name() string { return e.Name }

func marshal(v any) []byte {
	b, err := json.Marshal(v)
	if err != nil {
		panic("vf: case not serialisable: " + err.Error())
	}
	return b
}

type known struct {
	re *regexp.Regexp
	id string
}

func knownFor(prop, sub string) []known {
	var ks []known
	for _, f := range loadFindings() {
		if f.Property == prop && f.Status == "open" && f.Generated && (f.Sub == "" || f.Sub == sub) {
			ks = append(ks, known{regexp.MustCompile(f.Match), f.ID})
		}
	}
	return ks
}

// judge runs one case and classifies the outcome.
// Returns (errText, fail). A known-finding hit or an inconclusive outcome is not a failure.
func judge[C any](c C, check func(C, *Obs) error, st *Stats, ks []known, counting bool, stepFails func(C) bool) (string, bool) {
	o := &Obs{}
	raw := marshal(c)
	err := Safely(func() error { return check(c, o) })
	fail := false
	text := ""
	if err != nil {
		text = err.Error()
		switch {
		case errors.Is(err, ErrInconclusive):
			if stepFails != nil && stepFails(c) {
				fail = true
				text = "non-termination: " + text
			} else {
				o.Inconclusive(text)
			}
		default:
			fail = true
		}
		if fail {
			for _, k := range ks {
				if k.re.MatchString(text) {
					o.Known(k.id)
					fail = false
					break
				}
			}
		}
	}
	if counting {
		if o.known != "" {
			st.KnownHits[o.known]++
		}
		st.add(raw, o)
	}
	return text, fail
}

func (s *Sub[C]) run(t *testing.T, prop string) {
	n := s.Quick
	if Thorough() {
		n = s.Thorough
	}
	n = int(float64(n) * env.Scale)
	if n < 1 {
		n = 1
	}
	st := newStats(prop, s.Name, s.Rule)
	st.Floor = s.Floor
	st.ClassFloors = s.Classes
	st.Requested = n
	ks := knownFor(prop, s.Name)
	failPath := ""
	curPath := ""
	if env.Out != "" {
		failPath = filepath.Join(env.Out, fmt.Sprintf("fail-%s-%d.json", s.Name, env.Shard))
		curPath = filepath.Join(env.Out, fmt.Sprintf("current-%s-%d.json", s.Name, env.Shard))
	}
	defer func() {
		if curPath != "" {
			_ = os.Remove(curPath)
		}
		if !st.Failed && st.Evaluations >= 200 {
			share := float64(st.Nontrivial) / float64(st.Evaluations)
			if share < s.Floor {
				st.HarnessError = fmt.Sprintf("non-trivial share %.3f below floor %.3f", share, s.Floor)
			}
			for cl, fl := range s.Classes {
				if sh := float64(st.Classes[cl]) / float64(st.Evaluations); sh < fl {
					st.HarnessError = fmt.Sprintf("class %q share %.4f below floor %.4f", cl, sh, fl)
				}
			}
			if st.Evaluations < n {
				st.HarnessError = fmt.Sprintf("only %d of %d requested cases ran (deadline)", st.Evaluations, n)
			}
		}
		st.write()
		if st.HarnessError != "" {
			t.Errorf("HARNESS-ERROR %s/%s: %s", prop, s.Name, st.HarnessError)
		}
	}()
	_ = flag.Set("rapid.checks", strconv.Itoa(n))
	_ = flag.Set("rapid.seed", strconv.FormatUint(env.Seed, 10))
	_ = flag.Set("rapid.nofailfile", "true")
	rapid.Check(t, func(rt *rapid.T) {
		c := s.Gen(rt)
		if s.Journal && curPath != "" {
			saveCase(curPath, prop, s.Name, marshal(c), "process died while executing this case")
		}
		text, fail := judge(c, s.Check, st, ks, !st.Failed, s.StepLimitFails)
		if fail {
			st.Failed = true
			st.FailError = text
			if failPath != "" {
				saveCase(failPath, prop, s.Name, marshal(c), text)
				st.FailFile = failPath
			}
			rt.Fatalf("%s/%s: %s", prop, s.Name, text)
		}
	})
}

func (s *Sub[C]) replay(raw json.RawMessage) error {
	var c C
	if err := json.Unmarshal(raw, &c); err != nil {
		return fmt.Errorf("vf: cannot decode case for %s: %v", s.Name, err)
	}
	st := newStats("", s.Name, "")
	text, fail := judge(c, s.Check, st, nil, false, s.StepLimitFails)
	if fail {
		return errors.New(text)
	}
	if text != "" {
		return fmt.Errorf("%w: %s", ErrInconclusive, text)
	}
	return nil
}

func (e *Enum[C]) run(t *testing.T, prop string) {
	st := newStats(prop, e.Name, e.Rule)
	st.Exhaustive = true
	ks := knownFor(prop, e.Name)
	failPath := ""
	if env.Out != "" {
		failPath = filepath.Join(env.Out, fmt.Sprintf("fail-%s-%d.json", e.Name, env.Shard))
	}
	defer st.write()
	e.Each(env.Tier, env.Shard, env.NShards, func(c C) bool {
		text, fail := judge(c, e.Check, st, ks, true, nil)
		if fail {
			st.Failed = true
			st.FailError = text
			if failPath != "" {
				saveCase(failPath, prop, e.Name, marshal(c), text)
				st.FailFile = failPath
			}
			t.Errorf("%s/%s: %s\ncase: %s", prop, e.Name, text, marshal(c))
			return false
		}
		return true
	})
}

func (e *Enum[C]) replay(raw json.RawMessage) error {
	var c C
	if err := json.Unmarshal(raw, &c); err != nil {
		return fmt.Errorf("vf: cannot decode case for %s: %v", e.Name, err)
	}
	st := newStats("", e.Name, "")
	text, fail := judge(c, e.Check, st, nil, false, nil)
	if fail {
		return errors.New(text)
	}
	return nil
}

// ---------------------------------------------------------------------------
// entry points used by every property package

// Main initialises the framework; call from TestMain.
func Main(m *testing.M, prop string) {
	propID = prop
	flag.Parse()
	loadEnv()
	os.Exit(m.Run())
}

// RunAll runs every registered sub-check (or the one named by VERIF_ONLY).
func RunAll(t *testing.T) {
	for _, r := range registry {
		if env.Only != "" && env.Only != r.name() {
			continue
		}
		r := r
		t.Run(r.name(), func(t *testing.T) { r.run(t, propID) })
	}
}

func find(sub string) runner {
	for _, r := range registry {
		if r.name() == sub {
			return r
		}
	}
	return nil
}

func readCase(path string) (*CaseFile, error) {
	b, err := os.ReadFile(path)
	if err != nil {
		return nil, err
	}
	var cf CaseFile
	if err := json.Unmarshal(b, &cf); err != nil {
		return nil, fmt.Errorf("%s: %v", path, err)
	}
	return &cf, nil
}

// ReplayFile replays one saved case; nil = the property held on it.
func ReplayFile(path string) error {
	cf, err := readCase(path)
	if err != nil {
		return fmt.Errorf("%w: %v", ErrInconclusive, err)
	}
	r := find(cf.Sub)
	if r == nil {
		return fmt.Errorf("%w: no sub-check %q in %s", ErrInconclusive, cf.Sub, propID)
	}
	return r.replay(cf.Case)
}

// ReplayEnv replays $VERIF_REPLAY (skipped when unset).
func ReplayEnv(t *testing.T) {
	p := os.Getenv("VERIF_REPLAY")
	if p == "" {
		t.Skip("VERIF_REPLAY not set")
	}
	err := ReplayFile(p)
	switch {
	case err == nil:
		t.Logf("replay %s: property holds on this case", p)
	case errors.Is(err, ErrInconclusive):
		t.Fatalf("REPLAY-INCONCLUSIVE %s: %v", p, err)
	default:
		fmt.Printf("REPLAY-FAIL %s: %v\n", p, err)
		t.Fatalf("replay %s: %v", p, err)
	}
}

type corpusResult struct {
	Property string   `json:"property"`
	Replayed int      `json:"replayed"`
	Failed   []string `json:"failed"`
	Errors   []string `json:"errors"`
	Known    []string `json:"known"` // open findings whose witness still fails: "id\twhat"
	Gone     []string `json:"gone"`  // open findings whose witness no longer fails
}

// Corpus replays corpus/<ID>/*.json (regression cases, incl. witnesses of fixed
// findings) and the witnesses of the open findings.
func Corpus(t *testing.T) {
	res := corpusResult{Property: propID}
	defer func() {
		if env.Out != "" && env.Shard == 0 {
			b, _ := json.MarshalIndent(res, "", " ")
			_ = os.WriteFile(filepath.Join(env.Out, "corpus.json"), b, 0o644)
		}
	}()
	openWitness := map[string]Finding{}
	for _, f := range loadFindings() {
		if f.Property == propID && f.Status == "open" && f.Witness != "" {
			openWitness[filepath.Clean(f.Witness)] = f
		}
	}
	files, _ := filepath.Glob(filepath.Join(env.Root, "corpus", propID, "*.json"))
	sort.Strings(files)
	for _, p := range files {
		rel, _ := filepath.Rel(env.Root, p)
		f, isOpen := openWitness[filepath.Clean(rel)]
		err := ReplayFile(p)
		res.Replayed++
		switch {
		case err == nil:
			if isOpen {
				res.Gone = append(res.Gone, f.ID)
			}
		case errors.Is(err, ErrInconclusive) && !isOpen:
			t.Errorf("HARNESS-ERROR corpus %s: %v", rel, err)
		case isOpen:
			if f.Match != "" && !regexp.MustCompile(f.Match).MatchString(err.Error()) {
				res.Failed = append(res.Failed, p)
				res.Errors = append(res.Errors, err.Error())
				t.Errorf("corpus %s (witness of open finding %s) fails with a different signature: %v", rel, f.ID, err)
			} else {
				res.Known = append(res.Known, f.ID+"\t"+f.What)
			}
		default:
			res.Failed = append(res.Failed, p)
			res.Errors = append(res.Errors, err.Error())
			t.Errorf("corpus %s: %v", rel, err)
		}
	}
}

// ---------------------------------------------------------------------------
// known findings

// Finding is one entry of known_findings.json.
type Finding struct {
	ID        string `json:"id"`
	Property  string `json:"property"`
	Status    string `json:"status"` // open | fixed
	Sub       string `json:"sub,omitempty"`
	Witness   string `json:"witness,omitempty"` // path relative to /verif
	Match     string `json:"match,omitempty"`   // regexp on the failure text (signature)
	Generated bool   `json:"generated,omitempty"`
	What      string `json:"what"`
	Commit    string `json:"commit,omitempty"`
	Line      string `json:"line,omitempty"` // "fixed: property=<id> <commit> <what failed>"
}

var findingsCache []Finding
var findingsLoaded bool

func loadFindings() []Finding {
	if findingsLoaded {
		return findingsCache
	}
	findingsLoaded = true
	b, err := os.ReadFile(filepath.Join(env.Root, "known_findings.json"))
	if err != nil {
		return nil
	}
	var doc struct {
		Findings []Finding `json:"findings"`
	}
	if err := json.Unmarshal(b, &doc); err != nil {
		panic("vf: known_findings.json: " + err.Error())
	}
	findingsCache = doc.Findings
	return findingsCache
}

// Fuzz runs a sub-check under Go's native coverage-guided fuzzer: the fuzzer mutates the
// byte stream that rapid decodes into the sub-check's generator choices (rapid.MakeFuzz), so
// every input is still built by the generator. A failing case is saved like in Run.
func Fuzz[C any](f *testing.F, prop string, s Sub[C]) {
	loadEnv()
	f.Add([]byte{})
	f.Add([]byte("\x01\x02\x03\x04\x05\x06\x07\x08\x09\x0a\x0b\x0c\x0d\x0e\x0f\x10\x11\x12\x13\x14\x15\x16\x17\x18"))
	f.Add(bytes.Repeat([]byte{0xff, 0x00, 0x7f, 0x80}, 64))
	// a starting population of pseudo-random streams (fixed generator: the corpus is the same on every run), long
	// enough to decode into complete cases of every size the generator can draw
	lcg := uint64(0x9e3779b97f4a7c15)
	for i := 0; i < 24; i++ {
		b := make([]byte, 256<<(i%6))
		for j := range b {
			lcg = lcg*6364136223846793005 + 1442695040888963407
			b[j] = byte(lcg >> 56)
		}
		f.Add(b)
	}
	f.Fuzz(rapid.MakeFuzz(func(rt *rapid.T) {
		c := s.Gen(rt)
		st := newStats(prop, s.Name, "")
		text, fail := judge(c, s.Check, st, knownFor(prop, s.Name), false, s.StepLimitFails)
		if fail {
			if env.Out != "" {
				saveCase(filepath.Join(env.Out, fmt.Sprintf("fail-fuzz-%s-%d.json", s.Name, os.Getpid())), prop, s.Name, marshal(c), text)
			}
			rt.Fatalf("%s/%s: %s", prop, s.Name, text)
		}
	}))
}
