//go:build verif

// C13 — DIMACS, OPB and WCNF texts mean what their formats say.
package c13

import (
	"fmt"
	"reflect"
	"strconv"
	"strings"
	"testing"

	"github.com/crillab/gophersat/explain"
	"github.com/crillab/gophersat/maxsat"
	"github.com/crillab/gophersat/solver"
	"pgregory.net/rapid"
	"verifharness/gen"
	"verifharness/gs"
	"verifharness/oracle"
	"verifharness/texts"
	"verifharness/vf"
)

// ---------------------------------------------------------------- DIMACS

type CNFCase struct {
	Reader  string          `json:"reader"` // solver | explain
	N       int             `json:"n"`
	Clauses [][]int         `json:"clauses"`
	Layout  texts.CNFLayout `json:"layout"`
}

func checkCNF(c CNFCase, o *vf.Obs) error {
	txt := texts.DIMACS(c.N, c.Clauses, c.Layout)
	knobs := c.Layout.Knobs()
	for _, k := range knobs {
		o.Class("knob-" + k)
	}
	hasEmpty, _, _, _ := gen.Shapes(c.Clauses)
	o.ClassIf(hasEmpty, "has-empty-clause")
	o.ClassIf(oracle.MaxVar(c.Clauses) < c.N, "unused-declared-var")
	o.Class("reader-" + c.Reader)
	if len(c.Clauses) >= 2 && len(knobs) >= 1 {
		o.Nontrivial()
	}
	if c.Reader == "explain" {
		pb, err := explain.ParseCNF(texts.ReaderFor(txt))
		if err != nil {
			return fmt.Errorf("explain.ParseCNF returns an error on a well-formed DIMACS text: %v\n--- text ---\n%s", err, txt)
		}
		// what the property asks: the same variables and the same models (a reader that normalised its clauses -
		// literal order, repeated literals - would still honour it; whether the list is kept as written is recorded
		// as a class, not required)
		if pb.NbVars != c.N {
			return fmt.Errorf("explain.ParseCNF: NbVars=%d, the text declares %d variables\n--- text ---\n%s", pb.NbVars, c.N, txt)
		}
		if pb.NbClauses != len(pb.Clauses) {
			return fmt.Errorf("explain.ParseCNF: NbClauses=%d but %d clauses are held\n--- text ---\n%s", pb.NbClauses, len(pb.Clauses), txt)
		}
		for _, cl := range pb.Clauses {
			for _, l := range cl {
				if l == 0 || l > c.N || -l > c.N {
					return fmt.Errorf("explain.ParseCNF: literal %d in the parsed clauses, the text declares %d variables\n--- text ---\n%s", l, c.N, txt)
				}
			}
		}
		want := oracle.Models(c.N, oracle.CNFPred(c.Clauses))
		got := oracle.Models(c.N, oracle.CNFPred(pb.Clauses))
		if !reflect.DeepEqual(got, want) {
			return fmt.Errorf("explain.ParseCNF: the parsed clauses %v have %d models over %d variables, the text (%v) has %d\n--- text ---\n%s", pb.Clauses, len(got), c.N, c.Clauses, len(want), txt)
		}
		same := len(pb.Clauses) == len(c.Clauses)
		for i := 0; same && i < len(c.Clauses); i++ {
			same = len(pb.Clauses[i]) == len(c.Clauses[i]) && (len(c.Clauses[i]) == 0 || reflect.DeepEqual(pb.Clauses[i], c.Clauses[i]))
		}
		o.ClassIf(same, "clause-list-kept-as-written")
		return nil
	}
	pb, err := solver.ParseCNF(texts.ReaderFor(txt))
	if err != nil {
		return fmt.Errorf("solver.ParseCNF returns an error on a well-formed DIMACS text: %v\n--- text ---\n%s", err, txt)
	}
	if pb.NbVars != c.N {
		return fmt.Errorf("solver.ParseCNF: NbVars=%d, the text declares %d\n--- text ---\n%s", pb.NbVars, c.N, txt)
	}
	want := oracle.Models(c.N, oracle.CNFPred(c.Clauses))
	got := oracle.Models(c.N, gs.ProblemPred(pb))
	if !reflect.DeepEqual(got, want) {
		return fmt.Errorf("solver.ParseCNF: the parsed problem has %d models, the text has %d (clauses %v)\n--- text ---\n%s", len(got), len(want), c.Clauses, txt)
	}
	return nil
}

var litSepPool = []string{" ", " ", " ", "  ", "\t", "\n", " \n", "\n ", " \t "}
var clauseEndPool = []string{"\n", "\n", "\n", " ", "  ", "\t", "\n\n", " \n"}

func genCNFLayout(t *rapid.T, nClauses int) texts.CNFLayout {
	var l texts.CNFLayout
	if gen.Chance(t, 1, 4, "conventional") {
		return l
	}
	l.CommentsBefore = rapid.IntRange(0, 2).Draw(t, "commentsBefore")
	l.CommentNoSpace = gen.Chance(t, 1, 4, "cNoSpace")
	l.HeaderSpacing = rapid.IntRange(0, 2).Draw(t, "hdr")
	if gen.Chance(t, 1, 2, "oddSeps") {
		for i, k := 0, rapid.IntRange(1, 5).Draw(t, "nseps"); i < k; i++ {
			l.LitSeps = append(l.LitSeps, rapid.SampledFrom(litSepPool).Draw(t, "sep"))
		}
	}
	if gen.Chance(t, 1, 2, "oddEnds") {
		for i, k := 0, rapid.IntRange(1, 4).Draw(t, "nends"); i < k; i++ {
			l.ClauseEnds = append(l.ClauseEnds, rapid.SampledFrom(clauseEndPool).Draw(t, "end"))
		}
	}
	if nClauses > 0 && gen.Chance(t, 1, 3, "commentsBetween") {
		for i, k := 0, rapid.IntRange(1, 2).Draw(t, "ncb"); i < k; i++ {
			l.CommentsAfter = append(l.CommentsAfter, gen.Uniform(t, 0, nClauses-1, "cbAt"))
		}
	}
	l.CRLF = gen.Chance(t, 1, 5, "crlf")
	l.NoFinalNewline = gen.Chance(t, 1, 4, "noFinalNL")
	return l
}

func genCNF(reader string) func(t *rapid.T) CNFCase {
	return func(t *rapid.T) CNFCase {
		c := CNFCase{Reader: reader}
		if gen.Chance(t, 1, 4, "chain") {
			c.N, c.Clauses = gen.PropagationChain(t, 2, 8)
		} else {
			c.N, c.Clauses = gen.SmallCNF(t, gen.CNFOpts{MinN: 1, MaxN: 8, MaxRatio: 2, MaxLen: 4, AllowEmpty: true, AllowDup: true, AllowUnit: true, UnusedVarSlack: true})
		}
		c.Layout = genCNFLayout(t, len(c.Clauses))
		return c
	}
}

// ---------------------------------------------------------------- OPB

type OPBCase struct {
	N       int             `json:"n"`
	Constrs []gen.PC        `json:"constrs"`
	Cost    *oracle.Cost    `json:"cost,omitempty"`
	Layout  texts.OPBLayout `json:"layout"`
	Probes  []uint64        `json:"probes,omitempty"` // assignments whose cost is pinned through unit constraints
}

func checkOPB(c OPBCase, o *vf.Obs) error {
	gs.Arm(0, gs.DefaultStepLimit)
	defer gs.Arm(0, 0)
	sems := gen.Sems(c.Constrs)
	txt := texts.OPB(c.Cost, sems, c.Layout)
	knobs := c.Layout.Knobs()
	for _, k := range knobs {
		o.Class("knob-" + k)
	}
	o.ClassIf(c.Cost != nil, "with-objective")
	if len(c.Constrs) >= 2 && len(knobs) >= 1 {
		o.Nontrivial()
	}
	n := oracle.MaxVarConstrs(sems)
	if c.Cost != nil {
		for _, l := range c.Cost.Lits {
			if l < 0 {
				l = -l
			}
			if l > n {
				n = l
			}
		}
	}
	pb, err := solver.ParseOPB(texts.ReaderFor(txt))
	if err != nil {
		return fmt.Errorf("ParseOPB returns an error on a well-formed OPB text: %v\n--- text ---\n%s", err, txt)
	}
	if pb.Status != solver.Unsat && pb.NbVars != n {
		return fmt.Errorf("ParseOPB: NbVars=%d, the text mentions variables up to x%d\n--- text ---\n%s", pb.NbVars, n, txt)
	}
	pred := func(m uint64) bool { return oracle.AllTrue(sems, m) }
	want := oracle.Models(n, pred)
	got := oracle.Models(n, gs.ProblemPred(pb))
	if !reflect.DeepEqual(got, want) {
		return fmt.Errorf("ParseOPB: the parsed problem has %d models, the text has %d\n--- text ---\n%s", len(got), len(want), txt)
	}
	if pb.Optim() != (c.Cost != nil) {
		return fmt.Errorf("ParseOPB: Optim()=%v but the text has objective=%v\n--- text ---\n%s", pb.Optim(), c.Cost != nil, txt)
	}
	if c.Cost == nil {
		return nil
	}
	// the cost of every model: optimum, then pinned assignments
	best, feasible, _ := oracle.Minimum(n, pred, c.Cost.Of)
	res := solver.New(pb).Optimal(nil, nil)
	if feasible != (res.Status == solver.Sat) || feasible && res.Weight != best {
		return fmt.Errorf("ParseOPB+Optimal = (%v, %d), the text's optimum: feasible=%v minimum=%d\n--- text ---\n%s", res.Status, res.Weight, feasible, best, txt)
	}
	for _, m := range c.Probes {
		m &= 1<<uint(n) - 1
		pinned := append([]oracle.Constr{}, sems...)
		for v := 1; v <= n; v++ {
			l := v
			if !oracle.LitTrue(v, m) {
				l = -v
			}
			pinned = append(pinned, oracle.Constr{Lits: []int{l}, Coefs: []int{1}, Rel: ">=", K: 1})
		}
		ptxt := texts.OPB(c.Cost, pinned, c.Layout)
		ppb, err := solver.ParseOPB(strings.NewReader(ptxt))
		if err != nil {
			return fmt.Errorf("ParseOPB returns an error on a well-formed OPB text: %v\n--- text ---\n%s", err, ptxt)
		}
		r := solver.New(ppb).Optimal(nil, nil)
		if pred(m) {
			if r.Status != solver.Sat || r.Weight != c.Cost.Of(m) {
				return fmt.Errorf("cost of the model %0*b: parsed problem gives (%v, %d), the text's objective gives %d\n--- text ---\n%s", n, m, r.Status, r.Weight, c.Cost.Of(m), ptxt)
			}
		} else if r.Status != solver.Unsat {
			return fmt.Errorf("assignment %0*b violates the text's constraints but the parsed, pinned problem is %v\n--- text ---\n%s", n, m, r.Status, ptxt)
		}
	}
	return nil
}

func genOPB(t *rapid.T) OPBCase {
	var c OPBCase
	c.N, c.Constrs = gen.PBConstrs(t, gen.PBOpts{MinN: 1, MaxN: 8, MaxConstrs: 6, MaxArity: 5})
	if gen.Chance(t, 1, 2, "objective") {
		cf := gen.CostFunc(t, c.N, true)
		if cf.W == nil {
			cf.W = make([]int, len(cf.Lits))
			for i := range cf.W {
				cf.W[i] = 1
			}
		}
		c.Cost = &cf
		for i, k := 0, rapid.IntRange(0, 3).Draw(t, "probes"); i < k; i++ {
			c.Probes = append(c.Probes, uint64(gen.Uniform(t, 0, 255, "probe")))
		}
	}
	if gen.Chance(t, 1, 4, "conventional") {
		return c
	}
	l := &c.Layout
	l.Comments = rapid.IntRange(0, 2).Draw(t, "comments")
	l.CommentFirst = gen.Chance(t, 1, 3, "hdrComment")
	l.NoPlus = gen.Chance(t, 1, 4, "noPlus")
	l.WideSpaces = gen.Chance(t, 1, 3, "wide") // the PB grammar separates tokens by blanks only: no tabs
	l.CRLF = gen.Chance(t, 1, 5, "crlf")
	l.NoFinalNL = gen.Chance(t, 1, 4, "noFinalNL")
	l.BlankLines = gen.Chance(t, 1, 4, "blank")
	l.TightOperator = gen.Chance(t, 1, 6, "tightOp")
	l.TightSemi = gen.Chance(t, 1, 6, "tightSemi")
	l.TightMin = gen.Chance(t, 1, 6, "tightMin")
	return c
}

// ---------------------------------------------------------------- WCNF

type WCNFCase struct {
	N       int              `json:"n"`
	Top     int              `json:"top"`
	Clauses []texts.WClause  `json:"clauses"`
	Layout  texts.WCNFLayout `json:"layout"`
	Probes  []uint64         `json:"probes,omitempty"`
}

func wcost(cls []texts.WClause, m uint64) (int, bool) {
	cost := 0
	for _, c := range cls {
		if !oracle.ClauseTrue(c.Lits, m) {
			if c.Weight == 0 {
				return 0, false
			}
			cost += c.Weight
		}
	}
	return cost, true
}

func checkWCNF(c WCNFCase, o *vf.Obs) error {
	gs.Arm(0, gs.DefaultStepLimit)
	defer gs.Arm(0, 0)
	knobs := c.Layout.Knobs()
	for _, k := range knobs {
		o.Class("knob-" + k)
	}
	o.ClassIf(c.Top == 0, "no-top-weight")
	if len(c.Clauses) >= 2 && len(knobs) >= 1 {
		o.Nontrivial()
	}
	solveText := func(cls []texts.WClause) (solver.Result, string, error) {
		txt := texts.WCNF(c.N, c.Top, cls, c.Layout)
		s, err := maxsat.ParseWCNF(texts.ReaderFor(txt))
		if err != nil {
			return solver.Result{}, txt, fmt.Errorf("ParseWCNF returns an error on a well-formed WCNF text: %v\n--- text ---\n%s", err, txt)
		}
		return s.Optimal(nil, nil), txt, nil
	}
	best, feasible := 0, false
	for m := uint64(0); m < 1<<uint(c.N); m++ {
		if k, ok := wcost(c.Clauses, m); ok && (!feasible || k < best) {
			best, feasible = k, true
		}
	}
	res, txt, err := solveText(c.Clauses)
	if err != nil {
		return err
	}
	if feasible != (res.Status == solver.Sat) || feasible && res.Weight != best {
		return fmt.Errorf("ParseWCNF+Optimal = (%v, %d), the text's optimum: hard clauses satisfiable=%v minimum=%d\n--- text ---\n%s", res.Status, res.Weight, feasible, best, txt)
	}
	// the same question asked with a result channel: the value returned must be the same
	if s2, err := maxsat.ParseWCNF(texts.ReaderFor(txt)); err == nil {
		ch := make(chan solver.Result)
		done := make(chan struct{})
		go func() {
			for range ch {
			}
			close(done)
		}()
		r2 := s2.Optimal(ch, nil)
		<-done
		if feasible != (r2.Status == solver.Sat) || feasible && r2.Weight != best {
			return fmt.Errorf("ParseWCNF+Optimal(results channel) returns (%v, %d), the text's optimum: hard clauses satisfiable=%v minimum=%d\n--- text ---\n%s", r2.Status, r2.Weight, feasible, best, txt)
		}
	}
	if c.Top == 0 {
		return nil // no hard clause available to pin an assignment
	}
	for _, m := range c.Probes {
		m &= 1<<uint(c.N) - 1
		pinned := append([]texts.WClause{}, c.Clauses...)
		for v := 1; v <= c.N; v++ {
			l := v
			if !oracle.LitTrue(v, m) {
				l = -v
			}
			pinned = append(pinned, texts.WClause{Lits: []int{l}})
		}
		r, ptxt, err := solveText(pinned)
		if err != nil {
			return err
		}
		k, ok := wcost(c.Clauses, m)
		if ok && (r.Status != solver.Sat || r.Weight != k) {
			return fmt.Errorf("cost of the assignment %0*b: parsed problem gives (%v, %d), the text gives %d\n--- text ---\n%s", c.N, m, r.Status, r.Weight, k, ptxt)
		}
		if !ok && r.Status != solver.Unsat {
			return fmt.Errorf("assignment %0*b violates a hard clause but the parsed, pinned problem is %v\n--- text ---\n%s", c.N, m, r.Status, ptxt)
		}
	}
	return nil
}

func genWCNF(t *rapid.T) WCNFCase {
	var c WCNFCase
	c.N = gen.Uniform(t, 1, 7, "n")
	used := c.N
	if gen.Chance(t, 1, 3, "slack") {
		used = gen.Uniform(t, 1, c.N, "used")
	}
	m := gen.Uniform(t, 1, 10, "m")
	withTop := !gen.Chance(t, 1, 4, "noTop")
	sum := 0
	for i := 0; i < m; i++ {
		wc := texts.WClause{Lits: gen.DistinctLits(t, used, gen.Uniform(t, 1, min(used, 4), "arity"), "l")}
		if !withTop || !gen.Chance(t, 1, 2, "hard") {
			wc.Weight = rapid.IntRange(1, 9).Draw(t, "w")
			sum += wc.Weight
		}
		c.Clauses = append(c.Clauses, wc)
	}
	if withTop {
		c.Top = sum + 1 + rapid.IntRange(0, 2).Draw(t, "topSlack")
		if gen.Chance(t, 1, 6, "bigTop") {
			// the usual way of writing "hard": a top far above any sum of soft weights (the format allows weights below 2^63)
			c.Top = rapid.SampledFrom([]int{1 << 20, 1<<31 - 1, 1 << 31, 1<<32 + 7, 1_000_000_000_000, 1<<62 + 12345}).Draw(t, "top")
		}
		for i, k := 0, rapid.IntRange(0, 3).Draw(t, "probes"); i < k; i++ {
			c.Probes = append(c.Probes, uint64(gen.Uniform(t, 0, 127, "probe")))
		}
	}
	if gen.Chance(t, 1, 4, "conventional") {
		return c
	}
	c.Layout.Comments = rapid.IntRange(0, 3).Draw(t, "comments")
	c.Layout.Wide = gen.Chance(t, 1, 3, "wide")
	c.Layout.CRLF = gen.Chance(t, 1, 4, "crlf")
	c.Layout.NoFinalNL = gen.Chance(t, 1, 4, "noFinalNL")
	c.Layout.OverTop = c.Top > 0 && gen.Chance(t, 1, 3, "overTop")
	return c
}

// ---------------------------------------------------------------- long lines

// LongCase is a text holding lines of more than 64 KiB (a clause or an objective over thousands of
// variables), built from a few parameters so that its meaning is known by construction.
type LongCase struct {
	Format string `json:"format"` // opb | wcnf | explain | cnf-comment | explain-comment | explain-wrapped-big | cnf-wrapped-big
	N      int    `json:"n"`      // variables
	Repeat int    `json:"repeat"` // how many times the literal list of the long clause is repeated
	A      int    `json:"a"`      // weights: w_i = 1 + (i*A+B)%9
	B      int    `json:"b"`
	Forced []int  `json:"forced"` // opb: variables forced true by unit constraints
}

func (c LongCase) w(i int) int { return 1 + (i*c.A+c.B)%9 }

func checkLong(c LongCase, o *vf.Obs) error {
	gs.Arm(0, 50_000_000)
	defer gs.Arm(0, 0)
	o.Class("format-" + c.Format)
	var sb strings.Builder
	longest := 0
	line := func(s string) {
		if len(s) > longest {
			longest = len(s)
		}
		sb.WriteString(s)
		sb.WriteString("\n")
	}
	var lits strings.Builder
	switch c.Format {
	case "opb":
		var obj strings.Builder
		obj.WriteString("min:")
		for i := 1; i <= c.N; i++ {
			fmt.Fprintf(&obj, " +%d x%d", c.w(i), i)
		}
		obj.WriteString(" ;")
		line(obj.String())
		for i := 1; i <= c.N; i++ {
			fmt.Fprintf(&lits, "+1 x%d ", i)
		}
		line(lits.String() + ">= 1 ;")
		want := 0
		for _, f := range c.Forced {
			line(fmt.Sprintf("+1 x%d >= 1 ;", f))
		}
		seen := map[int]bool{}
		for _, f := range c.Forced {
			if !seen[f] {
				want += c.w(f)
				seen[f] = true
			}
		}
		if len(c.Forced) == 0 {
			want = 10
			for i := 1; i <= c.N; i++ {
				if c.w(i) < want {
					want = c.w(i)
				}
			}
		}
		o.ClassIf(longest > 65536, "line>64KiB")
		if longest > 65536 {
			o.Nontrivial()
		}
		pb, err := solver.ParseOPB(strings.NewReader(sb.String()))
		if err != nil {
			return fmt.Errorf("ParseOPB returns an error on a well-formed text whose longest line has %d bytes: %v", longest, err)
		}
		if pb.NbVars != c.N {
			return fmt.Errorf("ParseOPB: NbVars=%d, the text has %d variables (longest line %d bytes)", pb.NbVars, c.N, longest)
		}
		res := solver.New(pb).Optimal(nil, nil)
		if res.Status != solver.Sat || res.Weight != want {
			return fmt.Errorf("ParseOPB+Optimal = (%v, %d) on a text with a %d-byte line, the optimum is %d by construction", res.Status, res.Weight, longest, want)
		}
	case "wcnf":
		// hard: the long clause (x1 or ... or xN, literals repeated); soft: (not x_i) with weight w_i for every i
		top := 10*c.N + 1
		sb.WriteString(fmt.Sprintf("p wcnf %d %d %d\n", c.N, c.N+1, top))
		fmt.Fprintf(&lits, "%d", top)
		for r := 0; r < c.Repeat; r++ {
			for i := 1; i <= c.N; i++ {
				fmt.Fprintf(&lits, " %d", i)
			}
		}
		line(lits.String() + " 0")
		want := 10
		for i := 1; i <= c.N; i++ {
			line(fmt.Sprintf("%d -%d 0", c.w(i), i))
			if c.w(i) < want {
				want = c.w(i)
			}
		}
		o.ClassIf(longest > 65536, "line>64KiB")
		if longest > 65536 {
			o.Nontrivial()
		}
		s, err := maxsat.ParseWCNF(strings.NewReader(sb.String()))
		if err != nil {
			return fmt.Errorf("ParseWCNF returns an error on a well-formed text whose longest line has %d bytes: %v", longest, err)
		}
		res := s.Optimal(nil, nil)
		if res.Status != solver.Sat || res.Weight != want {
			return fmt.Errorf("ParseWCNF+Optimal = (%v, %d) on a text with a %d-byte hard clause, the optimum is %d by construction (0 means the hard clause was lost)", res.Status, res.Weight, longest, want)
		}
	case "cnf-comment", "explain-comment":
		// a small CNF with very long comment lines (words, or numbers that would read as clauses) before the
		// header and between the clauses; the meaning is that of the clauses alone
		cls := [][]int{{1, 2}, {-1, 3}, {-2, -3}, {2, 3}}
		word := func(i int) string {
			if c.A%2 == 0 {
				return fmt.Sprintf("%d ", 1+i%3)
			}
			return "lorem "
		}
		comment := func() string {
			var cb strings.Builder
			cb.WriteString("c ")
			for i := 0; cb.Len() < c.N*c.Repeat; i++ {
				cb.WriteString(word(i))
			}
			return cb.String()
		}
		line(comment())
		line("p cnf 3 4")
		for i, cl := range cls {
			line(fmt.Sprintf("%d %d 0", cl[0], cl[1]))
			if i == c.B%4 {
				line(comment())
			}
		}
		o.ClassIf(longest > 4096, "comment>4KiB")
		o.ClassIf(longest > 65536, "line>64KiB")
		if longest > 4096 {
			o.Nontrivial()
		}
		if c.Format == "explain-comment" {
			pb, err := explain.ParseCNF(strings.NewReader(sb.String()))
			if err != nil {
				return fmt.Errorf("explain.ParseCNF returns an error on a text with a %d-byte comment line: %v", longest, err)
			}
			if want, got := oracle.Models(3, oracle.CNFPred(cls)), oracle.Models(3, oracle.CNFPred(pb.Clauses)); pb.NbVars != 3 || !reflect.DeepEqual(got, want) {
				return fmt.Errorf("explain.ParseCNF read %v (%d variables) from a text with a %d-byte comment line, the clauses are %v", pb.Clauses, pb.NbVars, longest, cls)
			}
			return nil
		}
		pb, err := solver.ParseCNF(strings.NewReader(sb.String()))
		if err != nil {
			return fmt.Errorf("solver.ParseCNF returns an error on a text with a %d-byte comment line: %v", longest, err)
		}
		want := oracle.Models(3, oracle.CNFPred(cls))
		if got := oracle.Models(3, gs.ProblemPred(pb)); pb.NbVars != 3 || !reflect.DeepEqual(got, want) {
			return fmt.Errorf("solver.ParseCNF: %d variables and %d models read from a text with a %d-byte comment line; the text has 3 variables and %d models", pb.NbVars, len(got), longest, len(want))
		}
	case "explain-wrapped-big", "cnf-wrapped-big":
		// a text of more than 128 KB whose clauses are each written over several lines (one literal per line, or
		// two); clause i is derived from (A, B, i); the last clauses pin the variables: exactly one model
		nCl := c.Repeat
		var cls [][]int
		for i := 0; i < nCl; i++ {
			var cl []int
			for j := 0; j < 3; j++ {
				v := 1 + (i*c.A+c.B+j*3)%10
				if v%2 == 0 { // the model: even variables true, odd ones false; literal j = 0 agrees with it
					if j > 0 && (i>>uint(j))&1 == 1 {
						v = -v
					}
				} else if j == 0 || (i>>uint(j))&1 == 1 {
					v = -v
				}
				cl = append(cl, v)
			}
			cls = append(cls, cl)
		}
		for v := 1; v <= 10; v++ { // pin the model with binary clauses (v or v), still wrapped
			l := v
			if v%2 == 1 {
				l = -v
			}
			cls = append(cls, []int{l, l})
		}
		sb.WriteString(fmt.Sprintf("p cnf 10 %d\n", len(cls)))
		for i, cl := range cls {
			for j, l := range cl {
				sb.WriteString(strconv.Itoa(l))
				if (i+j+c.B)%3 == 0 {
					sb.WriteString(" ")
				} else {
					sb.WriteString("\n")
				}
			}
			sb.WriteString("0\n")
		}
		o.ClassIf(sb.Len() > 128*1024, "text>128KB")
		if sb.Len() > 128*1024 {
			o.Nontrivial()
		}
		if c.Format == "explain-wrapped-big" {
			pb, err := explain.ParseCNF(strings.NewReader(sb.String()))
			if err != nil {
				return fmt.Errorf("explain.ParseCNF returns an error on a well-formed text of %d bytes with clauses written over several lines: %v", sb.Len(), err)
			}
			want := oracle.Models(10, oracle.CNFPred(cls))
			if got := oracle.Models(10, oracle.CNFPred(pb.Clauses)); pb.NbVars != 10 || !reflect.DeepEqual(got, want) {
				for i := range cls { // say which clause differs, when the list was kept in order
					if i < len(pb.Clauses) && !reflect.DeepEqual(pb.Clauses[i], cls[i]) {
						return fmt.Errorf("explain.ParseCNF: %d variables and %d models read from a %d-byte text that has 10 variables and %d models; clause %d is %v, read as %v", pb.NbVars, len(got), sb.Len(), len(want), i, cls[i], pb.Clauses[i])
					}
				}
				return fmt.Errorf("explain.ParseCNF: %d variables and %d models read from a %d-byte text that has 10 variables and %d models (%d clauses read, %d written)", pb.NbVars, len(got), sb.Len(), len(want), len(pb.Clauses), len(cls))
			}
			return nil
		}
		pb, err := solver.ParseCNF(strings.NewReader(sb.String()))
		if err != nil {
			return fmt.Errorf("solver.ParseCNF returns an error on a well-formed text of %d bytes with clauses written over several lines: %v", sb.Len(), err)
		}
		want := oracle.Models(10, oracle.CNFPred(cls))
		if got := oracle.Models(10, gs.ProblemPred(pb)); pb.NbVars != 10 || !reflect.DeepEqual(got, want) {
			return fmt.Errorf("solver.ParseCNF: %d variables and %d models read from a %d-byte text; the text has 10 variables and %d models", pb.NbVars, len(got), sb.Len(), len(want))
		}
	case "explain":
		sb.WriteString(fmt.Sprintf("p cnf %d 2\n", c.N))
		var want []int
		for r := 0; r < c.Repeat; r++ {
			for i := 1; i <= c.N; i++ {
				fmt.Fprintf(&lits, "%d ", i)
				want = append(want, i)
			}
		}
		line(lits.String() + "0")
		line("-1 0")
		o.ClassIf(longest > 65536, "line>64KiB")
		if longest > 65536 {
			o.Nontrivial()
		}
		pb, err := explain.ParseCNF(strings.NewReader(sb.String()))
		if err != nil {
			return fmt.Errorf("explain.ParseCNF returns an error on a well-formed text whose longest line has %d bytes: %v", longest, err)
		}
		// the long clause is (x1 or ... or xN) whatever the order and the repetitions; with the unit clause (not x1)
		// the models are those of (x2 or ... or xN) and not x1: compared as literal sets, a truth table being out of reach
		asSet := func(cl []int) map[int]bool {
			m := map[int]bool{}
			for _, l := range cl {
				m[l] = true
			}
			return m
		}
		okLong, okUnit := false, false
		for _, cl := range pb.Clauses {
			set := asSet(cl)
			if len(set) == c.N && !okLong {
				okLong = true
				for v := 1; v <= c.N; v++ {
					okLong = okLong && set[v]
				}
			} else if len(set) == 1 && set[-1] {
				okUnit = true
			} else {
				return fmt.Errorf("explain.ParseCNF: a clause with the %d distinct literals %v... was read from a text that holds a clause over x1..x%d (a %d-byte line) and the unit clause -1", len(set), cl[:min(len(cl), 6)], c.N, longest)
			}
		}
		if !okLong || !okUnit {
			return fmt.Errorf("explain.ParseCNF: the %d-literal clause (a %d-byte line) or the unit clause was lost (%d clauses read)", len(want), longest, len(pb.Clauses))
		}
	}
	return nil
}

func genLong(t *rapid.T) LongCase {
	c := LongCase{Format: rapid.SampledFrom([]string{"opb", "wcnf", "explain", "cnf-comment", "cnf-comment", "explain-comment", "explain-wrapped-big", "cnf-wrapped-big"}).Draw(t, "format")}
	c.A, c.B = rapid.IntRange(1, 8).Draw(t, "a"), rapid.IntRange(0, 8).Draw(t, "b")
	switch c.Format {
	case "opb":
		c.N = gen.Uniform(t, 7600, 9500, "n") // the objective line passes 64 KiB from about 6000 variables
		for i, k := 0, rapid.IntRange(0, 3).Draw(t, "forced"); i < k; i++ {
			c.Forced = append(c.Forced, gen.Uniform(t, 1, c.N, "f"))
		}
	case "explain-wrapped-big", "cnf-wrapped-big":
		c.N = 10
		c.Repeat = gen.Uniform(t, 14000, 24000, "clauses") // about 10 bytes per clause
	case "cnf-comment", "explain-comment":
		c.N = gen.Uniform(t, 100, 1000, "n") // comment length = N*Repeat bytes: from 100 bytes to 80 KB
		c.Repeat = rapid.SampledFrom([]int{1, 5, 8, 20, 80}).Draw(t, "repeat")
	default:
		c.N = gen.Uniform(t, 200, 1000, "n")
		c.Repeat = 20000/c.N + rapid.IntRange(0, 12).Draw(t, "repeat") // about 5 bytes per literal: mostly beyond 64 KiB
	}
	return c
}

func min(a, b int) int {
	if a < b {
		return a
	}
	return b
}

var (
	subDimacsSolver, subDimacsExplain vf.Sub[CNFCase]
	subOPB                            vf.Sub[OPBCase]
	subWCNF                           vf.Sub[WCNFCase]
)

func FuzzTexts(f *testing.F)        { vf.Fuzz(f, "C13", subDimacsSolver) }
func FuzzTextsExplain(f *testing.F) { vf.Fuzz(f, "C13", subDimacsExplain) }
func FuzzTextsOPB(f *testing.F)     { vf.Fuzz(f, "C13", subOPB) }
func FuzzTextsWCNF(f *testing.F)    { vf.Fuzz(f, "C13", subWCNF) }

func init() {
	subDimacsSolver = vf.Sub[CNFCase]{Name: "dimacs-solver", Quick: 15000, Thorough: 100000, Gen: genCNF("solver"), Check: checkCNF, Floor: 0.3,
		Rule: "DIMACS text for solver.ParseCNF written from a CNF (n<=8, empty clauses, duplicate literals, unused declared variables) with layout knobs: comment preamble with or without blank after 'c', header spacing, arbitrary blanks/tabs/newlines between tokens (clauses spanning lines, several clauses per line), comment lines between clauses, CRLF, optional final newline; oracle: the parsed problem, evaluated without solving from its exported data, has exactly the models of the CNF over the declared variables; non-trivial = >=2 clauses and >=1 knob away from the conventional layout"}
	subDimacsExplain = vf.Sub[CNFCase]{Name: "dimacs-explain", Quick: 15000, Thorough: 100000, Gen: genCNF("explain"), Check: checkCNF, Floor: 0.3,
		Rule: "the same DIMACS texts for explain.ParseCNF; oracle: NbVars matches the header, NbClauses matches the clause list held, and that list has exactly the models of the CNF over the declared variables (whether it is kept literally as written is recorded as a class); non-trivial as above"}
	subOPB = vf.Sub[OPBCase]{Name: "opb", Quick: 10000, Thorough: 120000, Gen: genOPB, Check: checkOPB, Floor: 0.3,
		Rule: "OPB text written from a PB problem (coefficients of either sign, >= / = / <= (as negated >=), trivially true/false constraints, optional min: line with signed coefficients) with layout knobs: '*' comments, explicit '+' or not, several blanks, CRLF, blank lines, optional final newline, and the zero-space forms the grammar allows ('>=0', '0;', 'min:+1'); oracle: parsed problem evaluated without solving has the text's models; Optimal = brute-force optimum; for up to 3 drawn assignments the text extended with unit constraints pinning the assignment yields exactly that assignment's cost, or Unsat when it violates a constraint; non-trivial as above"}
	subWCNF = vf.Sub[WCNFCase]{Name: "wcnf", Quick: 8000, Thorough: 100000, Gen: genWCNF, Check: checkWCNF, Floor: 0.3,
		Rule: "WCNF text (p wcnf V C [top], one weighted clause per line; top just above the sum of the soft weights, or, in a sixth of the cases, a large constant up to 2^62) with 'c' comments, several blanks, CRLF, optional final newline; oracle: Optimal (without and with a result channel) = brute-force minimum weight of violated soft clauses; pinned assignments (unit hard clauses) give their exact cost or Unsat; non-trivial as above"}
	subLong := vf.Sub[LongCase]{Name: "long-lines", Quick: 30, Thorough: 100, Gen: genLong, Check: checkLong, Floor: 0,
		Rule: "texts with very long lines: DIMACS comment lines of 100 bytes to 80 KB (words, or numbers that would read as clauses) for both DIMACS readers, and lines of more than 64 KiB: an OPB objective / clause over 3000..9000 variables, a WCNF hard clause or a DIMACS clause (for explain.ParseCNF) whose literal list is repeated; and DIMACS texts of more than 128 KB whose 14000..24000 clauses are each written over several lines (both DIMACS readers); the meaning is known by construction (optimum = weight of the forced variables, or the smallest weight; clause list read back as written); non-trivial = the longest line exceeds 65536 bytes (4096 for comments)"}
	vf.Register(subDimacsSolver, subDimacsExplain, subOPB, subWCNF, subLong)
}

func TestMain(m *testing.M)   { vf.Main(m, "C13") }
func TestCorpus(t *testing.T) { vf.Corpus(t) }
func TestProp(t *testing.T)   { vf.RunAll(t) }
func TestReplay(t *testing.T) { vf.ReplayEnv(t) }
