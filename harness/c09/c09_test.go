//go:build verif

// C09 — adding constraints to a live solver equals solving from scratch.
package c09

import (
	"fmt"
	"testing"

	"github.com/crillab/gophersat/solver"
	"pgregory.net/rapid"
	"verifharness/gen"
	"verifharness/gs"
	"verifharness/oracle"
	"verifharness/vf"
)

// Op is one step of a history.
type Op struct {
	Kind  string `json:"kind"` // solve | clause | card | pb
	Lits  []int  `json:"lits,omitempty"`
	Coefs []int  `json:"coefs,omitempty"` // pb: positive weights
	K     int    `json:"k,omitempty"`     // card / pb degree (>= 1)
	Aim   string `json:"aim,omitempty"`   // how the generator aimed the constraint (label only)
}

func (o Op) sem() oracle.Constr {
	switch o.Kind {
	case "clause":
		return oracle.Clause(o.Lits...)
	case "card":
		return oracle.Constr{Lits: o.Lits, Rel: ">=", K: o.K}
	case "pb":
		return oracle.Constr{Lits: o.Lits, Coefs: o.Coefs, Rel: ">=", K: o.K}
	}
	panic("no semantics for " + o.Kind)
}

type Case struct {
	Front   string   `json:"front"` // slicenb | card | pb
	N       int      `json:"n"`
	Clauses [][]int  `json:"clauses,omitempty"`
	Constrs []gen.PC `json:"constrs,omitempty"`
	Ops     []Op     `json:"ops"`
	// CPAt switches the cutting-planes strategy on: 0 never, 1 right after New, k > 1 just before the (k-1)-th operation
	// of the history (an exported field of the solver, which a caller may set at any time between two calls).
	CPAt int `json:"cp_at,omitempty"`
	// Entry (front slicenb): "" ParseSliceNb, "cnf" / "cnf-commented" ParseCNF of a DIMACS rendering of the base
	Entry string `json:"entry,omitempty"`
}

func baseSems(c Case) []oracle.Constr {
	if c.Front == "slicenb" {
		var s []oracle.Constr
		for _, cl := range c.Clauses {
			s = append(s, oracle.Clause(cl...))
		}
		return s
	}
	return gen.Sems(c.Constrs)
}

func toLits(xs []int) []solver.Lit {
	out := make([]solver.Lit, len(xs))
	for i, x := range xs {
		out[i] = solver.IntToLit(int32(x))
	}
	return out
}

func check(c Case, o *vf.Obs) error {
	gs.Arm(0, gs.DefaultStepLimit)
	defer gs.Arm(0, 0)
	o.Class("front-" + c.Front)
	var pb *solver.Problem
	switch c.Front {
	case "slicenb":
		if c.Entry == "" {
			pb = solver.ParseSliceNb(oracle.CloneCNF(c.Clauses), c.N)
		} else {
			var err error
			if pb, err = gs.ParseCNFProblem(c.Entry, c.N, c.Clauses); err != nil {
				return fmt.Errorf("parse error on a well-formed DIMACS text: %v", err)
			}
			o.Class("base-entry-" + c.Entry)
		}
	case "card":
		pb = solver.ParseCardConstrs(gs.CardConstrsOf(c.Constrs))
	case "pb":
		pb = solver.ParsePBConstrs(gs.PBConstrsOf(c.Constrs))
	}
	o.ClassIf(pb.Status == solver.Sat, "base-parse-sat")
	o.ClassIf(pb.Status == solver.Unsat, "base-parse-unsat")
	nVars := pb.NbVars
	conj := baseSems(c)
	s := solver.New(pb)
	s.CuttingPlanes = c.CPAt == 1
	o.ClassIf(c.CPAt == 1, "cutting-planes-from-start")
	o.ClassIf(c.CPAt > 1 && c.CPAt-2 < len(c.Ops), "cutting-planes-switched-on-later")
	wasUnsat := false
	solves, addsSinceSolve, reused := 0, 0, false
	for step, op := range c.Ops {
		if c.CPAt > 1 && step == c.CPAt-2 {
			s.CuttingPlanes = true
		}
		if op.Kind != "solve" {
			if mv := oracle.MaxVar([][]int{op.Lits}); mv > nVars {
				nVars = mv
				o.Class("growth")
			}
			o.ClassIf(op.Aim != "", "aim-"+op.Aim)
			o.Class("add-" + op.Kind)
			_, _, dup, taut := gen.Shapes([][]int{op.Lits})
			o.ClassIf(dup || taut, "repeated-literal")
			conj = append(conj, op.sem())
			addsSinceSolve++
			ls := toLits(op.Lits)
			switch op.Kind {
			case "clause":
				s.AppendClause(solver.NewClause(ls))
			case "card":
				s.AppendClause(solver.NewCardClause(ls, op.K))
			case "pb":
				s.AppendClause(solver.NewPBClause(ls, append([]int{}, op.Coefs...), op.K))
			}
			continue
		}
		if solves > 0 && addsSinceSolve > 0 {
			reused = true
		}
		solves++
		addsSinceSolve = 0
		st := s.Solve()
		n := nVars
		if mv := oracle.MaxVarConstrs(conj); mv > n {
			n = mv
		}
		m, truth := oracle.AnyModel(n, func(m uint64) bool { return oracle.AllTrue(conj, m) })
		_ = m
		if st != solver.Sat && st != solver.Unsat {
			return fmt.Errorf("step %d: Solve returned %v", step, st)
		}
		if truth != (st == solver.Sat) {
			return fmt.Errorf("step %d: Solve = %v but the conjunction of the base problem and the %d added constraints is satisfiable=%v", step, st, len(conj)-len(baseSems(c)), truth)
		}
		if wasUnsat && st != solver.Unsat {
			return fmt.Errorf("step %d: Solve = %v after an earlier Unsat", step, st)
		}
		if st == solver.Unsat {
			wasUnsat = true
			o.Class("became-unsat")
			continue
		}
		model := s.Model()
		if len(model) > n {
			return fmt.Errorf("step %d: model has %d values, highest variable is %d", step, len(model), n)
		}
		if i := oracle.FirstFalse(conj, oracle.MaskOf(model)); i >= 0 {
			return fmt.Errorf("step %d: model %v violates constraint #%d of the conjunction: %v", step, model, i, conj[i])
		}
	}
	o.ClassIf(solves >= 3, "solves>=3")
	if reused {
		o.Nontrivial()
	}
	return nil
}

// genOps draws a history; constraints are aimed with the harness's own oracle (not with
// the solver): entailed by the current conjunction, contradicting it, or free.
func genOps(t *rapid.T, c *Case) {
	conj := baseSems(*c)
	nVars := c.N
	if mv := oracle.MaxVarConstrs(conj); mv > nVars {
		nVars = mv
	}
	nOps := rapid.IntRange(1, 12).Draw(t, "nops")
	for i := 0; i < nOps; i++ {
		if gen.Chance(t, 2, 5, "isSolve") || i == nOps-1 {
			c.Ops = append(c.Ops, Op{Kind: "solve"})
			continue
		}
		limit := nVars
		if limit < 14 && gen.Chance(t, 1, 4, "grow") {
			limit = min(14, nVars+rapid.IntRange(1, 3).Draw(t, "by"))
		}
		if limit < 1 {
			limit = 1
		}
		kind := rapid.SampledFrom([]string{"clause", "clause", "card", "pb"}).Draw(t, "kind")
		op := Op{Kind: kind}
		switch kind {
		case "clause":
			ln := rapid.IntRange(1, 4).Draw(t, "len")
			for j := 0; j < ln; j++ {
				op.Lits = append(op.Lits, gen.Lit(t, limit, "l"))
			}
			if ln > 1 && gen.Chance(t, 1, 5, "rep") { // repeat or complement a literal
				l := op.Lits[0]
				if rapid.Bool().Draw(t, "compl") {
					l = -l
				}
				op.Lits[ln-1] = l
			}
		case "card":
			op.Lits = gen.DistinctLits(t, limit, rapid.IntRange(1, 5).Draw(t, "len"), "l")
			op.K = rapid.IntRange(1, len(op.Lits)).Draw(t, "k")
		case "pb":
			op.Lits = gen.DistinctLits(t, limit, rapid.IntRange(1, 5).Draw(t, "len"), "l")
			sum := 0
			for range op.Lits {
				w := rapid.IntRange(1, 4).Draw(t, "w")
				op.Coefs = append(op.Coefs, w)
				sum += w
			}
			op.K = rapid.IntRange(1, sum+1).Draw(t, "k")
		}
		// aim with the oracle: sometimes flip literals so that the constraint is entailed / contradictory
		n := max(nVars, limit)
		models := oracle.Models(n, func(m uint64) bool { return oracle.AllTrue(conj, m) })
		if len(models) > 0 {
			switch rapid.IntRange(0, 5).Draw(t, "aim") {
			case 0: // make every literal true in some model: a satisfied-looking addition
				m := models[gen.Uniform(t, 0, len(models)-1, "which")]
				for j, l := range op.Lits {
					if !oracle.LitTrue(l, m) {
						op.Lits[j] = -l
					}
				}
				op.Aim = "agree-with-a-model"
			case 1: // make every literal false in some model: pushes towards units / conflicts
				m := models[gen.Uniform(t, 0, len(models)-1, "which")]
				for j, l := range op.Lits {
					if oracle.LitTrue(l, m) {
						op.Lits[j] = -l
					}
				}
				op.Aim = "against-a-model"
			}
		}
		sem := op.sem()
		if op.Aim == "" {
			all, none := true, true
			for _, m := range models {
				if sem.True(m) {
					none = false
				} else {
					all = false
				}
			}
			switch {
			case len(models) > 0 && all:
				op.Aim = "entailed"
			case len(models) > 0 && none:
				op.Aim = "contradictory"
			}
		}
		conj = append(conj, sem)
		if limit > nVars {
			nVars = limit
		}
		c.Ops = append(c.Ops, op)
	}
}

// genLongCardOps: additions of long cardinality constraints, many unit clauses (mostly against a current
// model, so that they falsify literals of the constraints in place) and solves.
func genLongCardOps(t *rapid.T, c *Case) {
	conj := baseSems(*c)
	n := c.N
	nOps := rapid.IntRange(3, 14).Draw(t, "nops")
	for i := 0; i < nOps; i++ {
		switch k := rapid.IntRange(0, 9).Draw(t, "what"); {
		case k <= 2 || i == nOps-1:
			c.Ops = append(c.Ops, Op{Kind: "solve"})
		case k <= 4:
			ls := gen.DistinctLits(t, n, gen.Uniform(t, 6, n, "len"), "l")
			op := Op{Kind: "card", Lits: ls, K: gen.Uniform(t, 2, 3, "k")}
			conj = append(conj, op.sem())
			c.Ops = append(c.Ops, op)
		default:
			op := Op{Kind: "clause", Lits: []int{gen.Lit(t, n, "u")}}
			if models := oracle.Models(n, func(m uint64) bool { return oracle.AllTrue(conj, m) }); len(models) > 0 && gen.Chance(t, 3, 4, "keepSat") {
				// a unit that keeps the conjunction satisfiable: true in some current model
				m := models[gen.Uniform(t, 0, len(models)-1, "which")]
				if !oracle.LitTrue(op.Lits[0], m) {
					op.Lits[0] = -op.Lits[0]
				}
				op.Aim = "unit-true-in-a-model"
			}
			conj = append(conj, op.sem())
			c.Ops = append(c.Ops, op)
		}
	}
}

func genCase(front string) func(t *rapid.T) Case {
	inner := genCase0(front)
	return func(t *rapid.T) Case {
		c := inner(t)
		if c.Front == "slicenb" {
			c.Entry = rapid.SampledFrom([]string{"", "", "cnf", "cnf-commented"}).Draw(t, "entry")
		}
		if gen.Chance(t, 1, 4, "cp") {
			c.CPAt = 1
			if rapid.Bool().Draw(t, "late") {
				c.CPAt = 2 + gen.Uniform(t, 0, len(c.Ops), "cpAt")
			}
		}
		return c
	}
}

func genCase0(front string) func(t *rapid.T) Case {
	return func(t *rapid.T) Case {
		c := Case{Front: front}
		switch front {
		case "long-card":
			// long cardinality constraints with a small degree: most literals are unwatched, and unit
			// clauses appended later falsify literals of the unwatched tail of constraints the solver holds
			c.Front = "card"
			c.N = gen.Uniform(t, 9, 13, "n")
			for i, m := 0, gen.Uniform(t, 1, 3, "m"); i < m; i++ {
				ls := gen.DistinctLits(t, c.N, gen.Uniform(t, 7, c.N, "len"), "l")
				c.Constrs = append(c.Constrs, gen.PC{Kind: "atleast", Lits: ls, K: gen.Uniform(t, 2, 3, "k")})
			}
			genLongCardOps(t, &c)
			return c
		case "dense-card":
			// many mid-length cardinality constraints with degree >= 2 over few variables, with both polarities: a
			// constraint propagates while some of its literals are already true, the conjunction is near its
			// satisfiability threshold, and conflicts are analysed through several cardinality reasons
			c.Front = "card"
			c.N = gen.Uniform(t, 8, 13, "n")
			mk := func() (ls []int, k int) {
				ls = gen.DistinctLits(t, c.N, gen.Uniform(t, 4, 9, "len"), "l")
				if len(ls) > c.N {
					ls = ls[:c.N]
				}
				return ls, gen.Uniform(t, 2, max(2, (len(ls)+1)/2), "k")
			}
			for i, m := 0, gen.Uniform(t, 2, 5, "m"); i < m; i++ {
				ls, k := mk()
				c.Constrs = append(c.Constrs, gen.PC{Kind: "atleast", Lits: ls, K: k})
			}
			for i, nOps := 0, rapid.IntRange(4, 14).Draw(t, "nops"); i < nOps; i++ {
				switch k := rapid.IntRange(0, 9).Draw(t, "what"); {
				case k <= 2 || i == nOps-1:
					c.Ops = append(c.Ops, Op{Kind: "solve"})
				case k <= 8:
					ls, d := mk()
					c.Ops = append(c.Ops, Op{Kind: "card", Lits: ls, K: d})
				default:
					c.Ops = append(c.Ops, Op{Kind: "clause", Lits: gen.DistinctLits(t, c.N, gen.Uniform(t, 1, 3, "clen"), "c")})
				}
			}
			return c
		case "hard":
			// a base with real conflicts (threshold 3-SAT / pigeonhole minus a pigeon): learned clauses and
			// learned units exist when constraints are added
			c.Front = "slicenb"
			if rapid.Bool().Draw(t, "php") {
				c.N, c.Clauses = gen.Pigeonhole(t, 3, true)
			} else {
				c.N = gen.Uniform(t, 10, 13, "n")
				c.Clauses = gen.KSAT(t, c.N, c.N*gen.Uniform(t, 36, 43, "ratio")/10, 3)
			}
		case "slicenb":
			c.N, c.Clauses = gen.SmallCNF(t, gen.CNFOpts{MinN: 1, MaxN: 8, MaxRatio: 2, MaxLen: 4, AllowEmpty: true, AllowDup: true, AllowUnit: true, UnusedVarSlack: true})
		default:
			c.N, c.Constrs = gen.PBConstrs(t, gen.PBOpts{MinN: 1, MaxN: 8, MaxConstrs: 4, MaxArity: 5, Card: front == "card"})
		}
		genOps(t, &c)
		return c
	}
}

// GHCase: a pigeonhole formula (holes+1 pigeons) in which every clause carries one of 1..3 guard literals. Because the
// pigeonhole formula is minimally unsatisfiable, the conjunction with the unit clauses added so far is unsatisfiable
// exactly when every guard has been falsified: the verdict of every Solve is known by construction, and the last
// ones need hundreds to thousands of conflicts (restarts, clause-database reductions) on a solver that has already
// solved and been extended.
type GHCase struct {
	Holes   int   `json:"holes"`
	Guards  int   `json:"guards"`
	GuardOf []int `json:"guard_of"` // guard (0-based) carried by each clause, cyclic
	Order   []int `json:"order"`    // the guards are falsified in this order, one unit clause each
	Extra   []int `json:"extra"`    // after guard k is falsified, a clause over a new variable is added too when Extra[k] != 0
	NbMax   int   `json:"nbmax,omitempty"`
}

func checkGH(c GHCase, o *vf.Obs) error {
	gs.Arm(c.NbMax, 200_000_000)
	defer gs.Arm(0, 0)
	holes, pigeons := c.Holes, c.Holes+1
	np := pigeons * holes
	v := func(p, h int) int { return p*holes + h + 1 }
	var cls [][]int
	for p := 0; p < pigeons; p++ {
		var cl []int
		for h := 0; h < holes; h++ {
			cl = append(cl, v(p, h))
		}
		cls = append(cls, cl)
	}
	for h := 0; h < holes; h++ {
		for p := 0; p < pigeons; p++ {
			for q := p + 1; q < pigeons; q++ {
				cls = append(cls, []int{-v(p, h), -v(q, h)})
			}
		}
	}
	usedGuard := make([]bool, c.Guards)
	for i := range cls {
		g := c.GuardOf[i%len(c.GuardOf)] % c.Guards
		usedGuard[g] = true
		cls[i] = append(cls[i], np+1+g)
	}
	n := np + c.Guards
	o.Class(fmt.Sprintf("holes-%d", holes))
	s := solver.New(solver.ParseSliceNb(oracle.CloneCNF(cls), n))
	all := oracle.CloneCNF(cls)
	falsified := make([]bool, c.Guards)
	solve := func(when string) error {
		st := s.Solve()
		wantUnsat := true
		for g := 0; g < c.Guards; g++ {
			if usedGuard[g] && !falsified[g] {
				wantUnsat = false
			}
		}
		o.ClassIf(s.Stats.NbRestarts > 0, "restart>0")
		o.ClassIf(s.Stats.NbDeleted > 0, "reduceDB>0")
		if wantUnsat != (st == solver.Unsat) {
			return fmt.Errorf("%s: Solve = %v, but the conjunction is unsatisfiable=%v by construction (%d conflicts, %d restarts so far)", when, st, wantUnsat, s.Stats.NbConflicts, s.Stats.NbRestarts)
		}
		if st == solver.Sat {
			m := s.Model()
			if i := oracle.ModelSatisfies(all, m); i >= 0 {
				return fmt.Errorf("%s: the model violates %v, clause %d of the conjunction (%d conflicts, %d restarts so far)", when, all[i], i, s.Stats.NbConflicts, s.Stats.NbRestarts)
			}
		}
		return nil
	}
	if err := solve("first solve"); err != nil {
		return err
	}
	next := n
	for k, g := range c.Order {
		g %= c.Guards
		unit := []int{-(np + 1 + g)}
		s.AppendClause(solver.NewClause([]solver.Lit{solver.IntToLit(int32(unit[0]))}))
		all = append(all, unit)
		falsified[g] = true
		if k < len(c.Extra) && c.Extra[k] != 0 {
			next++
			cl := []int{next, -(1 + (c.Extra[k]-1)%np)}
			s.AppendClause(solver.NewClause([]solver.Lit{solver.IntToLit(int32(cl[0])), solver.IntToLit(int32(cl[1]))}))
			all = append(all, cl)
		}
		if err := solve(fmt.Sprintf("after falsifying %d guard(s)", k+1)); err != nil {
			return err
		}
	}
	if s.Stats.NbConflicts >= 200 {
		o.Nontrivial()
	}
	return nil
}

func genGH(t *rapid.T) GHCase {
	c := GHCase{Holes: rapid.SampledFrom([]int{5, 6, 6, 7}).Draw(t, "holes"), Guards: rapid.IntRange(1, 3).Draw(t, "guards")}
	for i, k := 0, rapid.IntRange(1, 7).Draw(t, "pattern"); i < k; i++ {
		c.GuardOf = append(c.GuardOf, rapid.IntRange(0, c.Guards-1).Draw(t, "g"))
	}
	c.Order = rapid.Permutation(seqInts(0, c.Guards-1)).Draw(t, "order")
	for range c.Order {
		c.Extra = append(c.Extra, rapid.IntRange(0, 9).Draw(t, "extra"))
	}
	if rapid.Bool().Draw(t, "low") {
		c.NbMax = rapid.IntRange(20, 300).Draw(t, "limit")
	}
	return c
}

func seqInts(lo, hi int) []int {
	var s []int
	for i := lo; i <= hi; i++ {
		s = append(s, i)
	}
	return s
}

func min(a, b int) int {
	if a < b {
		return a
	}
	return b
}

func max(a, b int) int {
	if a > b {
		return a
	}
	return b
}

func init() {
	tail := "; the cutting-planes strategy is on from the start or switched on at a drawn point of the history in a quarter of the cases; history of 1..12 steps (Solve | AppendClause of a clause with possibly repeated/complementary literals | cardinality constraint 1<=k<=len | PB constraint with weights 1..4, k>=1), new variables up to 3 beyond the current maximum (total <=10), additions aimed with the harness's oracle (agreeing with / against a current model, entailed, contradictory); invariant after every Solve: verdict = truth table of base AND everything added, model satisfies it, Unsat is permanent; non-trivial = a Solve after an addition after a Solve"
	vf.Register(
		vf.Sub[Case]{Name: "cnf-base", Quick: 12000, Thorough: 75000, Gen: genCase("slicenb"), Check: check, Floor: 0.4, Rule: "base CNF via ParseSliceNb (n<=8)" + tail},
		vf.Sub[Case]{Name: "conflict-rich-base", Quick: 1500, Thorough: 20000, Gen: genCase("hard"), Check: check, Floor: 0.4, Rule: "base = threshold 3-SAT at n 10..13 or a satisfiable pigeonhole formula (12 variables): the solver has learned clauses and units when constraints are added (variables up to 14)" + tail},
		vf.Sub[Case]{Name: "long-cardinality", Quick: 3000, Thorough: 20000, Gen: genCase("long-card"), Check: check, Floor: 0.5, Rule: "base = 1..3 cardinality constraints of 7..n literals and degree 2..3 over n in 9..13 variables; history of 3..14 steps: Solve, addition of further long cardinality constraints, and mostly unit clauses that stay consistent with a current model (they falsify literals in the unwatched part of constraints the solver already holds)" + tail},
		vf.Sub[Case]{Name: "dense-cardinality", Quick: 10000, Thorough: 30000, Gen: genCase("dense-card"), Check: check, Floor: 0.5, Rule: "base = 2..5 cardinality constraints of 4..9 literals (either polarity) and degree 2..(len+1)/2 over n in 8..13 variables; history of 4..14 steps: Solve, mostly additions of further such constraints, some short clauses: the conjunction crosses its satisfiability threshold during the history and conflicts are analysed through cardinality reasons" + tail},
		vf.Sub[Case]{Name: "card-base", Quick: 8000, Thorough: 50000, Gen: genCase("card"), Check: check, Floor: 0.4, Rule: "base cardinality problem via ParseCardConstrs" + tail},
		vf.Sub[Case]{Name: "pb-base", Quick: 8000, Thorough: 50000, Gen: genCase("pb"), Check: check, Floor: 0.4, Rule: "base PB problem via ParsePBConstrs" + tail},
	)
}

func init() {
	vf.Register(vf.Sub[GHCase]{Name: "guarded-pigeonhole", Quick: 40, Thorough: 400, Gen: genGH, Check: checkGH, Floor: 0.3,
		Classes: map[string]float64{"restart>0": 0.4},
		Rule:    "base = pigeonhole formula with 5..7 holes whose clauses each carry one of 1..3 guard literals; history: Solve, then for each guard in a drawn order: AppendClause of the unit clause falsifying it (sometimes also a clause over a new variable), Solve; the pigeonhole formula being minimally unsatisfiable, each verdict is known by construction (Unsat exactly when every guard is falsified) and every Sat model is evaluated on the whole conjunction; the last solves take hundreds to thousands of conflicts, with restarts and reductions, on a solver that has solved and been extended before; non-trivial = >= 200 conflicts in all"})
}

func TestMain(m *testing.M)   { vf.Main(m, "C09") }
func TestCorpus(t *testing.T) { vf.Corpus(t) }
func TestProp(t *testing.T)   { vf.RunAll(t) }
func TestReplay(t *testing.T) { vf.ReplayEnv(t) }

// native fuzz targets (thorough tier): the fuzzer mutates the byte stream that rapid decodes into generator choices
func FuzzHistoryCNF(f *testing.F)  { vf.FuzzNamed(f, "C09", "cnf-base") }
func FuzzHistoryCard(f *testing.F) { vf.FuzzNamed(f, "C09", "dense-cardinality") }
