//go:build verif

// C16 — independent solver instances do not interfere; calls are race free.
// This package is built with -race by the driver; GORACE=log_path=$VERIF_OUT/race makes the
// detector write its reports to a file that the check reads after every round.
package c16

import (
	"bytes"
	"encoding/json"
	"fmt"
	"os"
	"os/exec"
	"path/filepath"
	"regexp"
	"runtime"
	"sort"
	"strings"
	"sync"
	"testing"
	"time"

	"github.com/crillab/gophersat/bf"
	"github.com/crillab/gophersat/explain"
	"github.com/crillab/gophersat/maxsat"
	"github.com/crillab/gophersat/solver"
	"pgregory.net/rapid"
	"verifharness/bfx"
	"verifharness/gen"
	"verifharness/gs"
	"verifharness/oracle"
	"verifharness/texts"
	"verifharness/vf"
)

// Task is one data-independent use of the library.
type Task struct {
	Kind    string          `json:"kind"`
	N       int             `json:"n,omitempty"`
	Clauses [][]int         `json:"clauses,omitempty"`
	Cost    *oracle.Cost    `json:"cost,omitempty"`
	WCNF    []texts.WClause `json:"wcnf,omitempty"`
	Top     int             `json:"top,omitempty"`
	F       *oracle.F       `json:"f,omitempty"`
	Many    [][][]int       `json:"many,omitempty"` // solve-many: the problems solved one after the other
}

type Case struct {
	Tasks []Task `json:"tasks"`
	Procs int    `json:"procs"`
	// NbMax lowers (through the verif hook, set once before any task starts and only read afterwards) the
	// learned-clause limit of every solver: clause-database reductions then happen inside the concurrent runs.
	NbMax int `json:"nbmax,omitempty"`
	// ConcurrentFirst runs the tasks together before running them one after the other: state that the library
	// initialises lazily and process-wide is then first touched concurrently.
	ConcurrentFirst bool `json:"concurrent_first,omitempty"`
}

// run executes one task and returns a canonical description of its outcome
// (verdict / validity / count / optimum / MUS), plus the number of conflicts when known.
func (t Task) run() (string, int) {
	switch t.Kind {
	case "solve", "cert-solve":
		pb := solver.ParseSliceNb(oracle.CloneCNF(t.Clauses), t.N)
		res, err := gs.Solve(solver.New(pb), t.Kind == "cert-solve", false)
		if err != nil {
			return "error: " + err.Error(), 0
		}
		out := res.Status.String()
		if res.Status == solver.Sat {
			out += fmt.Sprintf(" model-valid=%v", oracle.ModelSatisfies(t.Clauses, res.Model) < 0)
		}
		if t.Kind == "cert-solve" && res.Status == solver.Unsat {
			bad, refuted := oracle.CheckTrace(t.N, t.Clauses, res.Cert)
			out += fmt.Sprintf(" cert-valid=%v", bad < 0 && refuted)
		}
		return out, res.Stats.NbConflicts
	case "append-solve":
		s := solver.New(solver.ParseSliceNb(oracle.CloneCNF(t.Clauses), t.N))
		all := oracle.CloneCNF(t.Clauses)
		for _, cl := range t.Many {
			ls := make([]solver.Lit, len(cl[0]))
			for i, l := range cl[0] {
				ls[i] = solver.IntToLit(int32(l))
			}
			s.AppendClause(solver.NewClause(ls))
			all = append(all, cl[0])
		}
		st := s.Solve()
		out := st.String()
		if st == solver.Sat {
			out += fmt.Sprintf(" model-valid=%v", oracle.ModelSatisfies(all, s.Model()) < 0)
		}
		return out + fmt.Sprintf(" truth=%v", oracle.CNFSat(t.N+3, all)), s.Stats.NbConflicts
	case "solve-many":
		out, nc := "", 0
		for _, cls := range t.Many {
			s := solver.New(solver.ParseSlice(oracle.CloneCNF(cls)))
			st := s.Solve()
			if st == solver.Sat {
				m := s.Model()
				for len(m) < 20 {
					m = append(m, false)
				}
				out += fmt.Sprintf("S%v", oracle.ModelSatisfies(cls, m) < 0)
			} else {
				out += "U"
			}
			nc += s.Stats.NbConflicts
		}
		return out, nc
	case "count":
		s := solver.New(solver.ParseSliceNb(oracle.CloneCNF(t.Clauses), t.N))
		return fmt.Sprintf("count=%d", s.CountModels()), s.Stats.NbConflicts
	case "enumerate-chan":
		s := solver.New(solver.ParseSliceNb(oracle.CloneCNF(t.Clauses), t.N))
		ch := make(chan []bool, 1)
		done := make(chan struct{})
		valid, got := true, 0
		go func() {
			for m := range ch {
				got++
				if oracle.ModelSatisfies(t.Clauses, m) >= 0 {
					valid = false
				}
			}
			close(done)
		}()
		n := s.Enumerate(ch, nil)
		<-done
		return fmt.Sprintf("enumerated=%d delivered=%d valid=%v", n, got, valid), s.Stats.NbConflicts
	case "cp-solve", "cp-solve-heavy", "cp-solve-wide":
		pb := solver.ParseSliceNb(oracle.CloneCNF(t.Clauses), t.N)
		if t.Kind == "cp-solve" {
			pb.DetectAtMostOne()
		}
		s := solver.New(pb)
		s.CuttingPlanes = true
		st := s.Solve()
		out := st.String()
		if st == solver.Sat {
			out += fmt.Sprintf(" model-valid=%v", oracle.ModelSatisfies(t.Clauses, s.Model()) < 0)
		}
		return out, s.Stats.NbConflicts
	case "slow-cert-consumer":
		// a certified solve whose certificate consumer is slow to start (as a checker working line by line may be):
		// the solver sits blocked on its certificate channel for more than three seconds
		s := solver.New(solver.ParseSliceNb(oracle.CloneCNF(t.Clauses), t.N))
		s.Certified = true
		s.CertChan = make(chan string)
		var lines [][]int
		done := make(chan struct{})
		go func() {
			time.Sleep(3300 * time.Millisecond)
			for l := range s.CertChan {
				if cl, err := gs.ParseCertLine(l); err == nil {
					lines = append(lines, cl)
				}
			}
			close(done)
		}()
		st := s.Solve()
		close(s.CertChan)
		<-done
		out := st.String()
		if st == solver.Unsat {
			bad, refuted := oracle.CheckTrace(t.N, t.Clauses, lines)
			out += fmt.Sprintf(" cert-valid=%v", bad < 0 && refuted)
		}
		return out, s.Stats.NbConflicts
	case "opb-optimal":
		var cs []oracle.Constr
		for _, cl := range t.Clauses {
			cs = append(cs, oracle.Clause(cl...))
		}
		pb, err := solver.ParseOPB(strings.NewReader(texts.OPB(t.Cost, cs, texts.OPBLayout{})))
		if err != nil {
			return "error: " + err.Error(), 0
		}
		s := solver.New(pb)
		res := s.Optimal(nil, nil)
		return fmt.Sprintf("%v cost=%d", res.Status, res.Weight), s.Stats.NbConflicts
	case "optimal-chan":
		pb := solver.ParseSliceNb(oracle.CloneCNF(t.Clauses), t.N)
		ls := make([]solver.Lit, len(t.Cost.Lits))
		for i, l := range t.Cost.Lits {
			ls[i] = solver.IntToLit(int32(l))
		}
		pb.SetCostFunc(ls, append([]int{}, t.Cost.W...))
		s := solver.New(pb)
		ch := make(chan solver.Result, 2)
		streamOK := true
		done := make(chan struct{})
		go func() {
			// the consumer keeps every result and reads its model while the solver goes on
			var kept []solver.Result
			for r := range ch {
				kept = append(kept, r)
				for _, k := range kept {
					if k.Status == solver.Sat && (oracle.ModelSatisfies(t.Clauses, k.Model) >= 0 || t.Cost.Of(oracle.MaskOf(k.Model)) != k.Weight) {
						streamOK = false
					}
				}
			}
			close(done)
		}()
		res := s.Optimal(ch, nil)
		<-done
		out := fmt.Sprintf("%v cost=%d stream-valid=%v", res.Status, res.Weight, streamOK)
		if res.Status == solver.Sat {
			out += fmt.Sprintf(" model-valid=%v cost-true=%v", oracle.ModelSatisfies(t.Clauses, res.Model) < 0, t.Cost.Of(oracle.MaskOf(res.Model)) == res.Weight)
		}
		return out, s.Stats.NbConflicts
	case "wcnf":
		s, err := maxsat.ParseWCNF(strings.NewReader(texts.WCNF(t.N, t.Top, t.WCNF, texts.WCNFLayout{})))
		if err != nil {
			return "error: " + err.Error(), 0
		}
		ch := make(chan solver.Result, 2)
		done := make(chan struct{})
		streamOK := true
		go func() {
			var kept []solver.Result
			for r := range ch {
				kept = append(kept, r)
				for _, k := range kept { // read the models already received while the solver goes on
					if k.Status != solver.Sat {
						continue
					}
					cost := 0
					for _, w := range t.WCNF {
						if !oracle.ClauseTrue(w.Lits, oracle.MaskOf(k.Model)) {
							if w.Weight == 0 {
								streamOK = false
							}
							cost += w.Weight
						}
					}
					if cost != k.Weight {
						streamOK = false
					}
				}
			}
			close(done)
		}()
		res := s.Optimal(ch, nil)
		<-done
		return fmt.Sprintf("%v cost=%d stream-valid=%v", res.Status, res.Weight, streamOK), 0
	case "maxsat-api":
		var cs []maxsat.Constr
		for _, w := range t.WCNF {
			lits := make([]maxsat.Lit, len(w.Lits))
			for i, l := range w.Lits {
				if l > 0 {
					lits[i] = maxsat.Var(fmt.Sprintf("v%d", l))
				} else {
					lits[i] = maxsat.Not(fmt.Sprintf("v%d", -l))
				}
			}
			cs = append(cs, maxsat.Constr{Lits: lits, AtLeast: 1, Weight: w.Weight})
		}
		m, cost := maxsat.New(cs...).Solve()
		return fmt.Sprintf("nil=%v cost=%d", m == nil, cost), 0
	case "unsat-subset", "mus-deletion", "mus-insertion", "mus-maxsat":
		pb, err := explain.ParseCNF(strings.NewReader(gs.Dimacs(t.N, t.Clauses)))
		if err != nil {
			return "error: " + err.Error(), 0
		}
		var sub *explain.Problem
		switch t.Kind {
		case "unsat-subset":
			sub, err = pb.UnsatSubset()
		case "mus-deletion":
			sub, err = pb.MUSDeletion()
		case "mus-insertion":
			sub, err = pb.MUSInsertion()
		default:
			sub, err = pb.MUSMaxSat()
		}
		if err != nil {
			return "error: " + err.Error(), 0
		}
		keys := make([]string, 0, len(sub.Clauses))
		for _, cl := range sub.Clauses {
			keys = append(keys, oracle.Key(cl))
		}
		sort.Strings(keys)
		return fmt.Sprintf("unsat=%v subset=%v", !oracle.CNFSat(t.N, sub.Clauses), keys), 0
	case "bf-solve":
		m := bf.Solve(bfx.Build(t.F))
		if m == nil {
			return "nil", 0
		}
		env := map[string]bool{}
		for _, n := range t.F.Vars() {
			env[n] = m[n]
		}
		return fmt.Sprintf("model-valid=%v", t.F.Eval(env)), 0
	case "bf-dimacs":
		var buf bytes.Buffer
		err := bf.Dimacs(bfx.Build(t.F), &buf)
		lines := strings.Split(buf.String(), "\n")
		sort.Strings(lines) // variable numbering is deterministic, clause order too: keep it simple
		return fmt.Sprintf("err=%v text=%s", err, strings.Join(lines, "|")), 0
	}
	panic("bad task kind " + t.Kind)
}

var raceTop = regexp.MustCompile(`(?m)^\s+(github\.com/crillab/gophersat\S+)\(\)\n\s+(\S+:\d+)`)

// raceReports returns what the detector wrote to its report file since the last call.
var raceOffset int64

func raceReports() string {
	dir := os.Getenv("VERIF_OUT")
	if dir == "" {
		return ""
	}
	b, err := os.ReadFile(filepath.Join(dir, fmt.Sprintf("race.%d", os.Getpid())))
	if err != nil || int64(len(b)) <= raceOffset {
		return ""
	}
	rep := string(b[raceOffset:])
	raceOffset = int64(len(b))
	if !strings.Contains(rep, "WARNING: DATA RACE") {
		return ""
	}
	return rep
}

func check(c Case, o *vf.Obs) error {
	gs.Arm(c.NbMax, 0)
	defer gs.Arm(0, 0)
	raceReports() // forget what an earlier case left behind
	o.ClassIf(c.NbMax > 0, "nbmax-lowered")
	o.ClassIf(c.ConcurrentFirst, "concurrent-first")
	old := runtime.GOMAXPROCS(c.Procs)
	defer runtime.GOMAXPROCS(old)
	o.Class(fmt.Sprintf("procs-%d", c.Procs))
	o.Class(fmt.Sprintf("tasks-%d", len(c.Tasks)))
	for _, t := range c.Tasks {
		o.Class("task-" + t.Kind)
	}
	want := make([]string, len(c.Tasks))
	got := make([]string, len(c.Tasks))
	alone := func() error { // one after the other
		withConflicts := 0
		for i, t := range c.Tasks {
			var nc int
			want[i], nc = t.run()
			if nc > 0 {
				withConflicts++
			}
		}
		if rep := raceReports(); rep != "" {
			return raceError("while running the tasks one after the other", rep)
		}
		if withConflicts >= 2 {
			o.Nontrivial()
		}
		return nil
	}
	together := func() error {
		panics := make([]error, len(c.Tasks))
		var wg sync.WaitGroup
		start := make(chan struct{})
		for i := range c.Tasks {
			wg.Add(1)
			go func(i int) {
				defer wg.Done()
				<-start
				panics[i] = vf.Safely(func() error { got[i], _ = c.Tasks[i].run(); return nil })
			}(i)
		}
		close(start)
		wg.Wait()
		for i := range c.Tasks {
			if panics[i] != nil {
				return fmt.Errorf("task %d (%s) run concurrently: %v", i, c.Tasks[i].Kind, panics[i])
			}
		}
		if rep := raceReports(); rep != "" {
			return raceError("while running the tasks concurrently", rep)
		}
		return nil
	}
	phases := []func() error{alone, together}
	if c.ConcurrentFirst {
		phases = []func() error{together, alone}
	}
	for _, ph := range phases {
		if err := ph(); err != nil {
			return err
		}
	}
	for i := range c.Tasks {
		if got[i] != want[i] {
			return fmt.Errorf("task %d (%s) returns %q when run with %d other tasks, %q when run alone", i, c.Tasks[i].Kind, got[i], len(c.Tasks)-1, want[i])
		}
	}
	return nil
}

func raceError(when, rep string) error {
	var frames []string
	for _, m := range raceTop.FindAllStringSubmatch(rep, 6) {
		frames = append(frames, strings.TrimPrefix(m[1], "github.com/crillab/gophersat/")+"@"+filepath.Base(m[2]))
	}
	n := strings.Count(rep, "WARNING: DATA RACE")
	return fmt.Errorf("%d data race report(s) %s; gophersat frames: %s", n, when, strings.Join(frames, " | "))
}

// refuteAtParseTime makes, one time in six, the formula of the task unsatisfiable in a way the parser itself notices
// (two opposite unit clauses, or an empty clause): solvers of such problems are built along a different path.
func refuteAtParseTime(t *rapid.T, tk *Task) {
	if !gen.Chance(t, 1, 6, "parseUnsat") {
		return
	}
	if rapid.Bool().Draw(t, "emptyClause") {
		tk.Clauses = append(tk.Clauses, []int{})
	} else {
		l := gen.Lit(t, tk.N, "u")
		tk.Clauses = append(tk.Clauses, []int{l}, []int{-l})
	}
	tk.Clauses = rapid.Permutation(tk.Clauses).Draw(t, "order")
}

func genTask(t *rapid.T) Task {
	kind := rapid.SampledFrom([]string{"solve", "solve", "cert-solve", "count", "enumerate-chan", "append-solve", "cp-solve", "cp-solve-heavy", "cp-solve-heavy", "cp-solve-wide", "cp-solve-wide", "solve-many", "solve-many", "opb-optimal", "optimal-chan", "wcnf", "maxsat-api", "unsat-subset", "mus-deletion", "mus-insertion", "mus-maxsat", "bf-solve", "bf-dimacs", "bf-solve", "bf-dimacs"}).Draw(t, "kind")
	tk := Task{Kind: kind}
	switch kind {
	case "solve", "cert-solve":
		tk.N, tk.Clauses, _ = gen.FormulaHardSmall(t)
		refuteAtParseTime(t, &tk)
	case "count", "enumerate-chan":
		tk.N, tk.Clauses = gen.SmallCNF(t, gen.CNFOpts{MinN: 6, MaxN: 10, MaxRatio: 2, MaxLen: 3})
		refuteAtParseTime(t, &tk)
	case "append-solve":
		// a solver that is given more clauses after it was built (new variables included), then solves
		tk.N, tk.Clauses = gen.SmallCNF(t, gen.CNFOpts{MinN: 3, MaxN: 8, MaxRatio: 3, MaxLen: 3})
		refuteAtParseTime(t, &tk)
		for i, k := 0, gen.Uniform(t, 1, 5, "appended"); i < k; i++ {
			tk.Many = append(tk.Many, [][]int{gen.DistinctLits(t, tk.N+3, gen.Uniform(t, 1, 3, "alen"), "a")})
		}
	case "solve-many":
		// a worker that keeps building solvers (New) and solving small problems while the other tasks run: what a
		// server answering many queries does. Reads of process-wide state made by New happen all along the round.
		for i, k := 0, gen.Uniform(t, 40, 200, "problems"); i < k; i++ {
			n := gen.Uniform(t, 8, 20, "n")
			tk.Many = append(tk.Many, gen.KSAT(t, n, int(4.3*float64(n)), 3))
			tk.N = n
		}
	case "cp-solve":
		if rapid.Bool().Draw(t, "php") {
			tk.N, tk.Clauses = gen.Pigeonhole(t, rapid.IntRange(3, 5).Draw(t, "holes"), gen.Chance(t, 1, 3, "drop"))
		} else {
			tk.N = gen.Uniform(t, 6, 12, "n")
			tk.Clauses, _ = gen.CliqueRich(t, tk.N)
		}
	case "cp-solve-heavy":
		// cutting planes on threshold 3-SAT with 90..130 variables: often >= 512 conflicts, so the Luby restarts of that
		// strategy (and reductions of its learned constraints) happen
		// (pigeonhole formulas are easy for cutting planes; threshold 3-SAT is not: it degenerates to resolution)
		tk.N, tk.Clauses = gen.FormulaThreshold(t, 90, 130)
	case "cp-solve-wide":
		// cutting planes on 26..34 independent blocks of 3-SAT over 10 variables each (260..340 variables in all):
		// conflicts inside the blocks, on a solver with several hundred variables
		blocks := gen.Uniform(t, 26, 34, "blocks")
		for b := 0; b < blocks; b++ {
			for _, cl := range gen.KSAT(t, 10, gen.Uniform(t, 36, 44, "m"), 3) {
				sh := make([]int, len(cl))
				for i, l := range cl {
					if l > 0 {
						sh[i] = l + 10*b
					} else {
						sh[i] = l - 10*b
					}
				}
				tk.Clauses = append(tk.Clauses, sh)
			}
		}
		tk.N = 10 * blocks
		tk.Clauses = rapid.Permutation(tk.Clauses).Draw(t, "order")
	case "slow-cert-consumer":
		tk.N, tk.Clauses = gen.Pigeonhole(t, 3, false)
	case "opb-optimal":
		var cost oracle.Cost
		tk.N, tk.Clauses, cost = gen.VertexCover(t, 8, 14)
		tk.Cost = &cost
	case "optimal-chan":
		var cost oracle.Cost
		tk.N, tk.Clauses, cost = gen.VertexCover(t, 8, 14)
		tk.Cost = &cost
	case "wcnf", "maxsat-api":
		tk.N = gen.Uniform(t, 3, 8, "n")
		sum := 0
		for i, m := 0, gen.Uniform(t, 4, 16, "m"); i < m; i++ {
			w := texts.WClause{Lits: gen.DistinctLits(t, tk.N, gen.Uniform(t, 1, 3, "arity"), "l")}
			if !gen.Chance(t, 1, 3, "hard") {
				w.Weight = rapid.IntRange(1, 9).Draw(t, "w")
				sum += w.Weight
			}
			tk.WCNF = append(tk.WCNF, w)
		}
		tk.Top = sum + 1
	case "unsat-subset", "mus-deletion", "mus-insertion", "mus-maxsat":
		if rapid.Bool().Draw(t, "php") {
			tk.N, tk.Clauses = gen.Pigeonhole(t, 3, false)
		} else {
			tk.N = gen.Uniform(t, 6, 10, "n")
			tk.Clauses = gen.KSAT(t, tk.N, 6*tk.N, 3)
		}
	default:
		tk.F = gen.Formula(t, gen.FormulaOpts{MaxDepth: 4, Names: gen.NamePool(6), MaxGroup: 6, BigGroupsPos: true}, 0, 1)
		if rapid.Bool().Draw(t, "withWideGroup") {
			// an exactly-one group of 5..12 names next to the formula: the translation of such groups introduces
			// auxiliary variables while the formula is *built*, which happens inside the task
			g := &oracle.F{Op: "unique"}
			for _, n := range gen.NamePool(12)[:gen.Uniform(t, 5, 12, "width")] {
				g.Kids = append(g.Kids, oracle.V(n))
			}
			tk.F = &oracle.F{Op: rapid.SampledFrom([]string{"and", "or"}).Draw(t, "with"), Kids: []*oracle.F{tk.F, g}}
		}
	}
	return tk
}

func genCase(t *rapid.T) Case {
	var c Case
	k := gen.Uniform(t, 2, 8, "k")
	for i := 0; i < k; i++ {
		c.Tasks = append(c.Tasks, genTask(t))
	}
	c.Procs = rapid.SampledFrom([]int{2, 4, 16}).Draw(t, "procs")
	if rapid.Bool().Draw(t, "low") {
		c.NbMax = rapid.IntRange(3, 40).Draw(t, "limit")
	}
	c.ConcurrentFirst = rapid.Bool().Draw(t, "concurrentFirst")
	return c
}

// checkFresh runs the case in a process of its own (this test binary, re-executed on the case written to a file):
// whatever the library keeps per process -- tables filled on demand, pools, once-only initialisations -- is in its
// initial state when the concurrent phase starts. In the long-lived process of concurrent-mix such state is touched
// for the first time exactly once, most often by a phase that runs the tasks one after the other.
func checkFresh(c Case, o *vf.Obs) error {
	o.Class(fmt.Sprintf("procs-%d", c.Procs))
	o.Class(fmt.Sprintf("tasks-%d", len(c.Tasks)))
	heavy, others := 0, 0
	for _, t := range c.Tasks {
		o.Class("task-" + t.Kind)
		switch t.Kind {
		case "cp-solve-heavy", "cp-solve-wide":
			heavy++
		case "solve-many", "solve", "cert-solve", "cp-solve", "opb-optimal", "optimal-chan", "mus-deletion", "mus-insertion", "mus-maxsat", "unsat-subset":
			others++
		}
	}
	if heavy >= 1 && heavy+others >= 2 {
		o.Nontrivial()
	}
	dir, err := os.MkdirTemp(os.Getenv("VERIF_OUT"), "fresh-")
	if err != nil {
		return fmt.Errorf("%w: %v", vf.ErrInconclusive, err)
	}
	defer os.RemoveAll(dir)
	raw, _ := json.Marshal(c)
	cf, _ := json.Marshal(vf.CaseFile{Property: "C16", Sub: "concurrent-mix", Case: raw})
	file := filepath.Join(dir, "case.json")
	if err := os.WriteFile(file, cf, 0o644); err != nil {
		return fmt.Errorf("%w: %v", vf.ErrInconclusive, err)
	}
	cmd := exec.Command(os.Args[0], "-test.run", "^TestReplay$", "-test.timeout", "300s")
	cmd.Env = append(os.Environ(), "VERIF_REPLAY="+file, "VERIF_OUT="+dir, "GORACE=log_path="+filepath.Join(dir, "race"), "VERIF_ONLY=", "VERIF_FRESH_CHILD=1")
	out, err := cmd.CombinedOutput()
	text := string(out)
	if m := regexp.MustCompile(`(?m)^REPLAY-FAIL \S+: (.*)$`).FindStringSubmatch(text); m != nil {
		return fmt.Errorf("in a fresh process: %s", m[1])
	}
	if err == nil {
		return nil
	}
	if strings.Contains(text, "test timed out") || strings.Contains(text, "REPLAY-INCONCLUSIVE") {
		return fmt.Errorf("%w: child process: %s", vf.ErrInconclusive, firstBytes(text, 300))
	}
	if m := regexp.MustCompile(`(?m)^(panic:|fatal error:).*$`).FindString(text); m != "" {
		return fmt.Errorf("in a fresh process: the process died: %s", firstBytes(text[strings.Index(text, m):], 1200))
	}
	return fmt.Errorf("%w: child process: %v: %s", vf.ErrInconclusive, err, firstBytes(text, 300))
}

func firstBytes(s string, n int) string {
	if len(s) > n {
		return s[:n]
	}
	return s
}

func genFresh(t *rapid.T) Case {
	var c Case
	first := Task{Kind: "cp-solve-heavy"}
	first.N, first.Clauses = gen.FormulaThreshold(t, 100, 140)
	c.Tasks = append(c.Tasks, first)
	for i, k := 0, gen.Uniform(t, 1, 5, "k"); i < k; i++ {
		c.Tasks = append(c.Tasks, genTask(t))
	}
	slowRate := 12
	if vf.Thorough() {
		slowRate = 4
	}
	if gen.Chance(t, 1, slowRate, "slowCertConsumer") {
		tk := Task{Kind: "slow-cert-consumer"}
		tk.N, tk.Clauses = gen.Pigeonhole(t, 3, false)
		c.Tasks = append(c.Tasks, tk)
	}
	c.Procs = rapid.SampledFrom([]int{2, 4, 16}).Draw(t, "procs")
	if gen.Chance(t, 1, 3, "low") {
		c.NbMax = rapid.IntRange(3, 40).Draw(t, "limit")
	}
	c.ConcurrentFirst = true
	return c
}

func init() {
	vf.Register(vf.Sub[Case]{Name: "fresh-process", Quick: 20, Thorough: 250, Gen: genFresh, Check: checkFresh, Floor: 0.6,
		Rule: "as concurrent-mix, but every round runs in a process of its own (the test binary re-executed on the serialised case, race detector on, its report file read by the child) with the concurrent phase first, and always holds a cutting-planes Solve on threshold 3-SAT with 100..140 variables (Luby restarts: >= 512 conflicts in most) next to 1..5 other tasks (one round in twelve - one in four in the thorough tier - also holds a certified solve whose certificate consumer starts after 3.3 s, so that the solver sits blocked on its channel across the library's 3-second statistics tick): state that the library fills on demand once per process is then first written while other goroutines use the library; non-trivial = the heavy cutting-planes task plus >= 1 other task of a kind that performs search"})
	vf.Register(vf.Sub[Case]{Name: "concurrent-mix", Quick: 150, Thorough: 2500, Gen: genCase, Check: check, Floor: 0.3, Journal: true,
		Rule: "k in 2..8 data-independent tasks drawn from: Solve / certified Solve on parity and pigeonhole formulas (tens of conflicts), CountModels, Enumerate with a model channel, DetectAtMostOne + cutting-planes Solve, cutting-planes Solve on threshold 3-SAT with 90..130 variables (>= 512 conflicts, Luby restarts), cutting-planes Solve on 26..34 independent 3-SAT blocks (260..340 variables), a worker that builds and solves 40..200 small problems in a row, a solver that is given 1..5 more clauses (new variables included) before solving; one formula in six of the solve / count / enumerate / append tasks is refuted while it is parsed (opposite unit clauses or an empty clause), ParseOPB + Optimal, Optimal with result channel (the consumer keeps and re-reads the models) on weighted vertex cover, ParseWCNF+Optimal, maxsat.New+Solve, UnsatSubset, MUSDeletion, MUSInsertion, MUSMaxSat, bf.Solve, bf.Dimacs; GOMAXPROCS in {2,4,16}; in half of the rounds the learned-clause limit of all solvers is lowered (3..40) so that clause-database reductions happen inside the runs; in half of the rounds the concurrent phase comes first; every task's outcome (verdict, model validity, count, optimum, certificate validity, extracted subset) is first computed with the tasks run one after the other, then all tasks are started together and must return the same outcome; the binary is built with -race and the detector's report file is read after each phase: any report is a failure; non-trivial = >=2 tasks with >=1 conflict each. The schedule is not owned by the harness: each round is one sample of the interleavings"})
}

func TestMain(m *testing.M)   { vf.Main(m, "C16") }
func TestCorpus(t *testing.T) { vf.Corpus(t) }
func TestProp(t *testing.T)   { vf.RunAll(t) }
func TestReplay(t *testing.T) { vf.ReplayEnv(t) }
