// Package gen holds rapid generators shared by the property packages.
// Every random choice is drawn from rapid so that failures shrink and replay.
package gen

import (
	"math/bits"

	"pgregory.net/rapid"
)

// Uniform draws an (almost exactly) uniform integer in [lo, hi]. rapid's own integer
// generators are deliberately biased towards small magnitudes, which is wrong for
// picking variables of a random k-SAT instance; this one composes fair coin flips.
func Uniform(t *rapid.T, lo, hi int, label string) int {
	if hi <= lo {
		return lo
	}
	span := uint64(hi - lo)
	nb := bits.Len64(span) + 3 // 3 extra bits keep the modulo bias below 1/8 of a step
	var v uint64
	for i := 0; i < nb; i++ {
		v <<= 1
		if rapid.Bool().Draw(t, label) {
			v |= 1
		}
	}
	return lo + int(v%(span+1))
}

// Chance returns true with probability about num/den.
func Chance(t *rapid.T, num, den int, label string) bool {
	return Uniform(t, 0, den-1, label) < num
}

// Lit draws a non-zero literal over variables 1..n.
func Lit(t *rapid.T, n int, label string) int {
	v := Uniform(t, 1, n, label)
	if rapid.Bool().Draw(t, label+"neg") {
		return -v
	}
	return v
}

// DistinctLits draws k literals over distinct variables of 1..n (k is capped at n).
func DistinctLits(t *rapid.T, n, k int, label string) []int {
	if k > n {
		k = n
	}
	c := make([]int, 0, k)
	used := make(map[int]bool, k)
	for len(c) < k {
		v := Uniform(t, 1, n, label)
		for used[v] { // construction, not rejection: walk to the next free variable
			v = v%n + 1
		}
		used[v] = true
		if rapid.Bool().Draw(t, label+"neg") {
			v = -v
		}
		c = append(c, v)
	}
	return c
}

// CNFOpts controls SmallCNF.
type CNFOpts struct {
	MinN, MaxN     int
	MaxRatio       int  // clauses <= MaxRatio*n + 4
	MaxLen         int  // longest clause
	AllowEmpty     bool // an empty clause may occur (rarely)
	AllowDup       bool // duplicate literals / tautologies inside a clause
	AllowUnit      bool
	UnusedVarSlack bool // declared variables may exceed the highest used one
}

// SmallCNF draws a small CNF with controlled rates of odd clause shapes.
// It returns the declared variable count and the clauses.
func SmallCNF(t *rapid.T, o CNFOpts) (int, [][]int) {
	n := Uniform(t, o.MinN, o.MaxN, "n")
	used := n
	if o.UnusedVarSlack && n > 1 && Chance(t, 1, 4, "unusedSel") {
		used = Uniform(t, 1, n, "used")
	}
	m := Uniform(t, 0, o.MaxRatio*used+4, "m")
	// per-case profile of oddities, so that whole cases without any of them are common
	unitRate := 0
	if o.AllowUnit {
		unitRate = rapid.SampledFrom([]int{0, 0, 1, 3}).Draw(t, "unitRate") // out of 10
	}
	dupRate := 0
	if o.AllowDup {
		dupRate = rapid.SampledFrom([]int{0, 0, 1, 3}).Draw(t, "dupRate") // out of 10
	}
	emptyAt := -1
	if o.AllowEmpty && m > 0 && Chance(t, 1, 30, "emptySel") {
		emptyAt = Uniform(t, 0, m-1, "emptyAt")
	}
	cls := make([][]int, 0, m)
	for i := 0; i < m; i++ {
		if i == emptyAt {
			cls = append(cls, []int{})
			continue
		}
		ln := 1
		if unitRate == 0 || !Chance(t, unitRate, 10, "unit") {
			ln = 2 + rapid.IntRange(0, o.MaxLen-2).Draw(t, "len") // biased towards 2..3
		}
		c := DistinctLits(t, used, ln, "v")
		if dupRate > 0 && Chance(t, dupRate, 10, "dup") && len(c) > 0 {
			// repeat or complement one literal, at a random position
			l := c[Uniform(t, 0, len(c)-1, "which")]
			if rapid.Bool().Draw(t, "compl") {
				l = -l
			}
			pos := Uniform(t, 0, len(c), "pos")
			c = append(c[:pos], append([]int{l}, c[pos:]...)...)
		}
		cls = append(cls, c)
	}
	return n, cls
}

// KSAT draws a uniform k-SAT instance with distinct variables per clause.
func KSAT(t *rapid.T, n, m, k int) [][]int {
	cls := make([][]int, m)
	for i := range cls {
		cls[i] = DistinctLits(t, n, k, "v")
	}
	return cls
}

// Shapes classifies a clause list for the class histogram.
func Shapes(cls [][]int) (hasEmpty, hasUnit, hasDup, hasTaut bool) {
	for _, c := range cls {
		if len(c) == 0 {
			hasEmpty = true
		}
		if len(c) == 1 {
			hasUnit = true
		}
		seen := map[int]bool{}
		for _, l := range c {
			if seen[l] {
				hasDup = true
			}
			if seen[-l] {
				hasTaut = true
			}
			seen[l] = true
		}
	}
	return
}

// XorCNF draws m random parity constraints of arity 3 over n variables (x^y^z = b),
// each encoded by its 4 clauses. Such systems need many conflicts even for n <= 20.
func XorCNF(t *rapid.T, n, m int) [][]int {
	var cls [][]int
	for i := 0; i < m; i++ {
		vs := DistinctLits(t, n, 3, "xv")
		a, b, c := abs(vs[0]), abs(vs[1]), abs(vs[2])
		par := rapid.Bool().Draw(t, "par")
		for mask := 0; mask < 8; mask++ {
			// forbid the assignments with the wrong parity
			ones := mask&1 + mask>>1&1 + mask>>2&1
			if (ones%2 == 1) == par {
				continue
			}
			cl := []int{a, b, c}
			for j := range cl {
				if mask>>uint(j)&1 == 1 {
					cl[j] = -cl[j] // clause false exactly on this assignment
				}
			}
			cls = append(cls, cl)
		}
	}
	return cls
}

// Pigeonhole builds PHP(holes+1 pigeons, holes) with variables renamed and polarities
// flipped by drawn choices, clauses shuffled; optionally one pigeon removed (satisfiable).
func Pigeonhole(t *rapid.T, holes int, dropPigeon bool) (int, [][]int) {
	pigeons := holes + 1
	n := pigeons * holes
	perm := rapid.Permutation(seq(1, n)).Draw(t, "perm")
	flip := make([]bool, n+1)
	for v := 1; v <= n; v++ {
		flip[v] = rapid.Bool().Draw(t, "flip")
	}
	lit := func(p, h int, pos bool) int {
		v := perm[p*holes+h]
		if flip[v] != !pos {
			return v
		}
		return -v
	}
	var cls [][]int
	np := pigeons
	if dropPigeon {
		np--
	}
	for p := 0; p < np; p++ {
		c := make([]int, holes)
		for h := 0; h < holes; h++ {
			c[h] = lit(p, h, true)
		}
		cls = append(cls, c)
	}
	for h := 0; h < holes; h++ {
		for p := 0; p < pigeons; p++ {
			for q := p + 1; q < pigeons; q++ {
				cls = append(cls, []int{lit(p, h, false), lit(q, h, false)})
			}
		}
	}
	return n, rapid.Permutation(cls).Draw(t, "order")
}

func seq(lo, hi int) []int {
	s := make([]int, 0, hi-lo+1)
	for i := lo; i <= hi; i++ {
		s = append(s, i)
	}
	return s
}

func abs(x int) int {
	if x < 0 {
		return -x
	}
	return x
}

// ---- formula families shared by several properties

// FormulaSmall: n in 1..10 with all the odd clause shapes.
func FormulaSmall(t *rapid.T) (int, [][]int) {
	return SmallCNF(t, CNFOpts{MinN: 1, MaxN: 10, MaxRatio: 5, MaxLen: 5, AllowEmpty: true, AllowDup: true, AllowUnit: true, UnusedVarSlack: true})
}

// FormulaHardSmall: parity systems / pigeonhole formulas over <= 20 variables that need many conflicts.
func FormulaHardSmall(t *rapid.T) (n int, cls [][]int, family string) {
	switch rapid.IntRange(0, 2).Draw(t, "family") {
	case 0:
		n = Uniform(t, 14, 20, "n")
		cls = XorCNF(t, n, Uniform(t, n-2, n+6, "m"))
		family = "xor"
	default:
		n, cls = Pigeonhole(t, rapid.SampledFrom([]int{3, 4, 4, 4}).Draw(t, "holes"), Chance(t, 1, 4, "drop"))
		family = "php"
	}
	for i, k := 0, rapid.IntRange(0, 3).Draw(t, "extra"); i < k; i++ {
		cls = append(cls, DistinctLits(t, n, 3, "e"))
	}
	return
}

// FormulaThreshold: uniform 3-SAT near the satisfiability threshold.
func FormulaThreshold(t *rapid.T, minN, maxN int) (int, [][]int) {
	n := Uniform(t, minN, maxN, "n")
	ratio := Uniform(t, 400, 460, "ratio")
	return n, KSAT(t, n, n*ratio/100, 3)
}

// PropagationChain draws a CNF whose unit propagation runs deep: a hidden assignment A, one or two
// unit clauses, then for the other variables (in a drawn order) a clause holding the variable's
// literal true under A plus 1-2 literals over earlier variables false under A, so each becomes
// unit once the earlier ones are known; some extra clauses satisfied by A and, in a third of the
// cases, one clause false under A (the formula is then refuted by propagation alone). The clause
// order is shuffled, so units appear before, between and after the clauses they shorten; a unit
// is sometimes written with its literal repeated.
func PropagationChain(t *rapid.T, minN, maxN int) (int, [][]int) {
	n := Uniform(t, minN, maxN, "n")
	val := make([]bool, n+1)
	for v := 1; v <= n; v++ {
		val[v] = rapid.Bool().Draw(t, "a")
	}
	lit := func(v int, wantTrue bool) int {
		if val[v] == wantTrue {
			return v
		}
		return -v
	}
	order := rapid.Permutation(seq(1, n)).Draw(t, "chainOrder")
	roots := Uniform(t, 1, min(2, n), "roots")
	chain := Uniform(t, roots, n, "chainLen")
	var cls [][]int
	for i := 0; i < roots; i++ {
		u := []int{lit(order[i], true)}
		if Chance(t, 1, 5, "hiddenUnit") {
			u = append(u, u[0])
		}
		cls = append(cls, u)
	}
	for i := roots; i < chain; i++ {
		c := []int{lit(order[i], true)}
		for k, m := 0, Uniform(t, 1, min(2, i), "antecedents"); k < m; k++ {
			c = append(c, lit(order[Uniform(t, 0, i-1, "ante")], false))
		}
		cls = append(cls, rapid.Permutation(c).Draw(t, "litOrder"))
	}
	for k, m := 0, rapid.IntRange(0, 4).Draw(t, "extra"); k < m; k++ {
		c := DistinctLits(t, n, Uniform(t, 2, min(3, n), "elen"), "e")
		c[0] = lit(abs(c[0]), true) // satisfied by A
		cls = append(cls, c)
	}
	if Chance(t, 1, 3, "conflict") {
		var c []int
		for k, m := 0, Uniform(t, 1, min(3, chain), "clen"); k < m; k++ {
			c = append(c, lit(order[Uniform(t, 0, chain-1, "cv")], false))
		}
		cls = append(cls, c)
	}
	return n, rapid.Permutation(cls).Draw(t, "clauseOrder")
}

// CliqueRich draws a CNF rich in binary clauses, the food of at-most-one detection: complete
// cliques of 2..5 literals (one or mixed polarity), cliques minus one edge, overlapping cliques,
// repeated binary clauses, loose binary clauses, a few longer clauses; clause order shuffled.
// It returns the clauses and the labels of the blocks used.
func CliqueRich(t *rapid.T, n int) ([][]int, []string) {
	clique := func(ls []int) [][]int {
		var out [][]int
		for i := range ls {
			for j := i + 1; j < len(ls); j++ {
				out = append(out, []int{-ls[i], -ls[j]})
			}
		}
		return out
	}
	var cls [][]int
	var shapes []string
	for b, blocks := 0, rapid.IntRange(1, 4).Draw(t, "blocks"); b < blocks; b++ {
		switch rapid.IntRange(0, 7).Draw(t, "block") {
		case 7:
			// an at-most-one group of 5..7 variables together with clauses over most of the group (at least one
			// of them true) and a few clauses linking the group to other variables: the detected constraint is
			// the reason of many propagations during conflict analysis
			k := Uniform(t, min(5, n), min(7, n), "k")
			ls := DistinctLits(t, n, k, "g")
			for i := range ls {
				ls[i] = abs(ls[i])
			}
			cls = append(cls, clique(ls)...)
			for i, m := 0, rapid.IntRange(1, 2).Draw(t, "overGroup"); i < m; i++ {
				drop := Uniform(t, 0, k-1, "dropOne")
				var c []int
				for j, l := range ls {
					if j != drop {
						c = append(c, l)
					}
				}
				if n > k && rapid.Bool().Draw(t, "plusOther") {
					o := Lit(t, n, "o")
					dup := false
					for _, l := range c {
						if abs(l) == abs(o) {
							dup = true
						}
					}
					if !dup {
						c = append(c, o)
					}
				}
				cls = append(cls, c)
			}
			for i, m := 0, rapid.IntRange(1, 4).Draw(t, "links"); i < m; i++ {
				member := ls[Uniform(t, 0, k-1, "member")] // a member of the group, negated or not
				if rapid.Bool().Draw(t, "negMember") {
					member = -member
				}
				c := []int{member}
				for _, l := range DistinctLits(t, n, Uniform(t, 1, 2, "llen"), "k") {
					if abs(l) != abs(member) { // each variable once per clause (the PB front-end requires it)
						c = append(c, l)
					}
				}
				if len(c) >= 2 {
					cls = append(cls, c)
				}
			}
			shapes = append(shapes, "big-group-with-long-clauses")
		case 0, 1:
			k := Uniform(t, 2, min(5, n), "k")
			ls := DistinctLits(t, n, k, "q")
			if rapid.Bool().Draw(t, "allPositive") {
				for i := range ls {
					ls[i] = abs(ls[i])
				}
			}
			cls = append(cls, clique(ls)...)
			shapes = append(shapes, "clique")
		case 2:
			k := Uniform(t, 3, min(5, n), "k")
			cl := clique(DistinctLits(t, n, k, "q"))
			i := Uniform(t, 0, len(cl)-1, "drop")
			cls = append(cls, append(cl[:i:i], cl[i+1:]...)...)
			shapes = append(shapes, "clique-minus-edge")
		case 3:
			k := Uniform(t, 3, min(6, n), "k")
			ls := DistinctLits(t, n, k, "q")
			cls = append(cls, clique(ls[:k-1])...)
			cls = append(cls, clique(ls[1:])...)
			shapes = append(shapes, "overlapping-cliques")
		case 4:
			cl := DistinctLits(t, n, 2, "r")
			cls = append(cls, cl, append([]int{}, cl...))
			shapes = append(shapes, "repeated-binary")
		case 5:
			for i, k := 0, rapid.IntRange(1, 4).Draw(t, "loose"); i < k; i++ {
				cls = append(cls, DistinctLits(t, n, 2, "b"))
			}
			shapes = append(shapes, "loose-binaries")
		default:
			for i, k := 0, rapid.IntRange(1, 3).Draw(t, "long"); i < k; i++ {
				cls = append(cls, DistinctLits(t, n, Uniform(t, 3, min(4, n), "len"), "l"))
			}
			shapes = append(shapes, "long-clauses")
		}
	}
	if Chance(t, 1, 6, "unit") {
		cls = append(cls, []int{Lit(t, n, "u")})
		shapes = append(shapes, "unit")
	}
	return rapid.Permutation(cls).Draw(t, "order"), shapes
}

// Ladder draws formulas whose refutation / search goes through learned clauses with hundreds or
// thousands of literals: a long clause x_1 v ... v x_n (split on a helper y), then one of three tails:
//
//	"unsat":  x_k -> x_k+1 for all k (each split on a helper z_k) and not x_n (split on w): unsatisfiable;
//	"sat":    the same without "not x_n": satisfiable;
//	"gadget": only x_1 -> x_2 v q1 v q2 (split on z): satisfiable, the second conflict resolves on the
//	          n-literal learned clause.
//
// Variables are numbered in a drawn order (helpers first or last, x ascending or descending), which
// decides the order of the solver's first decisions. It returns n(variables), clauses and the tail kind.
func Ladder(t *rapid.T, nx int) (int, [][]int, string) {
	tail := rapid.SampledFrom([]string{"unsat", "unsat", "sat", "gadget"}).Draw(t, "tail")
	if nx > 800 {
		tail = "gadget" // the chains learn about nx clauses of about nx/2 literals: too much text for a certificate
	}
	helpersFirst := rapid.Bool().Draw(t, "helpersFirst")
	desc := rapid.Bool().Draw(t, "xDescending")
	next := 1 + rapid.IntRange(0, 2).Draw(t, "unusedFirst") // a few variables that occur in no clause come first
	firstUnused := next > 1                                 // variable 1 occurs in no clause of the ladder
	newVar := func() int { v := next; next++; return v }
	var y, w, q1, q2 int
	zs := make([]int, nx+1)
	allocHelpers := func() { // only the helpers the tail needs: unused variables would add decision levels
		y = newVar()
		if tail == "unsat" {
			w = newVar()
		}
		nz := nx - 1
		if tail == "gadget" {
			nz = 1
		}
		for k := 1; k <= nz; k++ {
			zs[k] = newVar()
		}
	}
	xs := make([]int, nx+1)
	if helpersFirst {
		allocHelpers()
	} else if tail == "gadget" {
		q1, q2 = newVar(), newVar()
	}
	for k := 1; k <= nx; k++ {
		xs[k] = newVar()
	}
	if desc {
		for i, j := 1, nx; i < j; i, j = i+1, j-1 {
			xs[i], xs[j] = xs[j], xs[i]
		}
	}
	if !helpersFirst {
		allocHelpers()
	} else if tail == "gadget" {
		q1, q2 = newVar(), newVar()
	}
	long := func(extra int) []int {
		c := make([]int, 0, nx+1)
		for k := 1; k <= nx; k++ {
			c = append(c, xs[k])
		}
		return append(c, extra)
	}
	cls := [][]int{long(y), long(-y)}
	switch tail {
	case "gadget":
		cls = append(cls, []int{-xs[1], xs[2], zs[1], q1, q2}, []int{-xs[1], xs[2], -zs[1], q1, q2})
	default:
		for k := 1; k < nx; k++ {
			cls = append(cls, []int{-xs[k], xs[k+1], zs[k]}, []int{-xs[k], xs[k+1], -zs[k]})
		}
		if tail == "unsat" {
			cls = append(cls, []int{-xs[nx], w}, []int{-xs[nx], -w})
		}
	}
	if firstUnused && rapid.Bool().Draw(t, "forbidFirst") {
		// variable 1 occurs nowhere else: forbid it through a helper (not a unit clause: nothing is decided while parsing).
		// Whatever takes a stale "variable 1" for a literal of a learned clause then meets a falsified literal.
		g := newVar()
		cls = append(cls, []int{-1, g}, []int{-1, -g})
	}
	return next - 1 + rapid.IntRange(0, 2).Draw(t, "unusedLast"), cls, tail
}

// LongOddClauses draws a CNF over 34..50 variables with 2..4 long clauses (33..n+6 literals drawn with replacement:
// repeated literals and complementary pairs occur, so some long clauses are tautologies) and 5..25 clauses of 1..3
// literals; two long clauses out of three are tightened: other clauses force all their literals but 1..3 false.
// Code paths that treat long input clauses differently from short ones see both kinds side by side.
func LongOddClauses(t *rapid.T) (int, [][]int) {
	n := Uniform(t, 34, 50, "n")
	var cls [][]int
	for i, k := 0, rapid.IntRange(2, 4).Draw(t, "long"); i < k; i++ {
		ln := Uniform(t, 33, n+6, "len")
		cl := make([]int, 0, ln)
		taut := Chance(t, 1, 2, "tautology")
		for len(cl) < ln {
			l := Lit(t, n, "l")
			if !taut {
				dup := false
				for _, m := range cl {
					if m == -l {
						dup = true
					}
				}
				if dup {
					continue
				}
			}
			cl = append(cl, l)
		}
		cls = append(cls, cl)
		if !taut && Chance(t, 2, 3, "tighten") {
			// all literals of the long clause but 1..3 are forced false by other clauses: the long clause then matters
			keep := map[int]bool{}
			var kept []int
			for j, r := 0, rapid.IntRange(1, 3).Draw(t, "keep"); j < r; j++ {
				l := cl[Uniform(t, 0, len(cl)-1, "kept")]
				if !keep[l] {
					keep[l] = true
					kept = append(kept, l)
				}
			}
			units := rapid.Bool().Draw(t, "byUnits")
			h := 0
			seen := map[int]bool{}
			for _, l := range cl {
				if keep[l] || seen[l] {
					continue
				}
				seen[l] = true
				if units {
					cls = append(cls, []int{-l})
				} else {
					if h == 0 {
						n++
						h = n
					}
					cls = append(cls, []int{-l, h}, []int{-l, -h})
				}
			}
			for j, m := 0, rapid.IntRange(0, 2).Draw(t, "onKept"); j < m && len(kept) > 0; j++ {
				c2 := []int{-kept[Uniform(t, 0, len(kept)-1, "k1")]}
				if rapid.Bool().Draw(t, "withOther") {
					if o := Lit(t, n, "o"); o != c2[0] && o != -c2[0] {
						c2 = append(c2, o)
					}
				}
				cls = append(cls, c2)
			}
		}
	}
	for i, k := 0, Uniform(t, 5, 25, "short"); i < k; i++ {
		cls = append(cls, DistinctLits(t, n, rapid.IntRange(1, 3).Draw(t, "slen"), "s"))
	}
	if rapid.Bool().Draw(t, "shuffle") {
		cls = rapid.Permutation(cls).Draw(t, "order")
	}
	return n, cls
}
