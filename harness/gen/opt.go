package gen

import (
	"pgregory.net/rapid"
	"verifharness/oracle"
)

// CostFunc draws a cost function over distinct variables of 1..n, either polarity.
// signed allows negative coefficients (OPB objective); otherwise weights are >= 0
// (zero included) and nil (= all ones) is produced sometimes.
func CostFunc(t *rapid.T, n int, signed bool) oracle.Cost {
	k := Uniform(t, 1, n, "costArity")
	c := oracle.Cost{Lits: DistinctLits(t, n, k, "cv")}
	if !signed && Chance(t, 1, 4, "nilW") {
		return c
	}
	w := rapid.SampledFrom([]int{1, 3, 9}).Draw(t, "costW")
	c.W = make([]int, k)
	for i := range c.W {
		if signed {
			c.W[i] = rapid.IntRange(-w, w).Draw(t, "cw")
		} else {
			c.W[i] = rapid.IntRange(0, w).Draw(t, "cw")
		}
	}
	return c
}

// VertexCover draws a weighted vertex cover instance: one clause (u or v) per edge,
// cost = weight of the chosen vertices. The first model a solver finds is usually
// not optimal, so optimisation needs several strengthening rounds.
func VertexCover(t *rapid.T, minN, maxN int) (int, [][]int, oracle.Cost) {
	n := Uniform(t, minN, maxN, "n")
	m := Uniform(t, n-1, 2*n, "edges")
	var cls [][]int
	for i := 0; i < m; i++ {
		e := DistinctLits(t, n, 2, "e")
		cls = append(cls, []int{abs(e[0]), abs(e[1])})
	}
	cost := oracle.Cost{Lits: seq(1, n), W: make([]int, n)}
	for i := range cost.W {
		cost.W[i] = Uniform(t, 1, 20, "vw")
	}
	return n, cls, cost
}

// SetCover draws a covering instance with PB rows: sum a_ij x_j >= b_i, cost c_j x_j.
func SetCover(t *rapid.T, minN, maxN int) (int, []PC, oracle.Cost) {
	n := Uniform(t, minN, maxN, "n")
	rows := Uniform(t, 2, 6, "rows")
	var ps []PC
	for i := 0; i < rows; i++ {
		k := Uniform(t, 2, min(n, 6), "rowArity")
		lits := DistinctLits(t, n, k, "rv")
		coefs := make([]int, k)
		sum := 0
		for j := range lits {
			lits[j] = abs(lits[j])
			coefs[j] = rapid.IntRange(1, 5).Draw(t, "a")
			sum += coefs[j]
		}
		ps = append(ps, PC{Kind: "gteq", Lits: lits, Coefs: coefs, K: Uniform(t, 1, (sum+1)/2, "b")})
	}
	cost := oracle.Cost{Lits: seq(1, n), W: make([]int, n)}
	for i := range cost.W {
		cost.W[i] = rapid.IntRange(1, 9).Draw(t, "c")
	}
	return n, ps, cost
}
