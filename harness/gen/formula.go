package gen

import (
	"fmt"

	"pgregory.net/rapid"
	"verifharness/oracle"
)

// FormulaOpts controls Formula.
type FormulaOpts struct {
	MaxDepth     int
	Names        []string
	MaxGroup     int  // largest exactly-one group
	BigGroupsPos bool // groups of more than 4 names only at positive polarity (C12's domain; C11's open finding)
	NoConstants  bool
	NoEmpty      bool // no empty and()/or()
	Excluded     *int // counts big groups that were clipped because of BigGroupsPos
	// Groups remembers the exactly-one groups already drawn for this formula, so that later groups can be
	// related to them (same names in another order, same first/last name and size with other inner names):
	// groups that need auxiliary variables must not get theirs mixed up.
	Groups *[][]string
	// Shared remembers the sub-formulas built so far; when non-nil, a position may reuse one of them: the
	// same object then occurs at several places of the formula (often as first operand / premise).
	Shared *[]*oracle.F
}

// Formula draws a formula tree. pol is the polarity of the position: +1, -1 or 0 (both).
func Formula(t *rapid.T, o FormulaOpts, depth, pol int) *oracle.F {
	if o.Shared != nil && depth > 0 && len(*o.Shared) > 0 && Chance(t, 1, 5, "reuse") {
		g := (*o.Shared)[Uniform(t, 0, len(*o.Shared)-1, "whichShared")]
		big := false
		g.Walk(1, func(h *oracle.F, _ int) {
			if h.Op == "unique" && len(h.Kids) > 4 {
				big = true
			}
		})
		if !(o.BigGroupsPos && big) {
			if g.Tag == "" {
				g.Tag = fmt.Sprintf("s%d", len(*o.Shared)*7+depth)
				for _, h := range *o.Shared { // keep tags distinct
					if h != g && h.Tag == g.Tag {
						g.Tag += "x"
					}
				}
			}
			return oracle.Ref(g)
		}
	}
	f := formula(t, o, depth, pol)
	if o.Shared != nil && f.Op != "var" && f.Op != "true" && f.Op != "false" && f.Op != "ref" {
		*o.Shared = append(*o.Shared, f)
	}
	return f
}

func formula(t *rapid.T, o FormulaOpts, depth, pol int) *oracle.F {
	leaf := depth >= o.MaxDepth || (depth > 0 && Chance(t, 1, 4, "leaf"))
	if leaf {
		switch rapid.IntRange(0, 9).Draw(t, "leafKind") {
		case 0:
			if !o.NoConstants {
				if rapid.Bool().Draw(t, "const") {
					return &oracle.F{Op: "true"}
				}
				return &oracle.F{Op: "false"}
			}
		case 1, 2:
			return uniqueGroup(t, o, pol)
		}
		return oracle.V(o.Names[Uniform(t, 0, len(o.Names)-1, "var")])
	}
	op := rapid.SampledFrom([]string{"not", "and", "and", "or", "or", "implies", "eq", "xor"}).Draw(t, "op")
	switch op {
	case "not":
		return &oracle.F{Op: op, Kids: []*oracle.F{Formula(t, o, depth+1, -pol)}}
	case "and", "or":
		lo := 0
		if o.NoEmpty {
			lo = 1
		}
		k := rapid.IntRange(lo, 4).Draw(t, "arity")
		if k == 0 && !Chance(t, 1, 3, "keepEmpty") {
			k = 2
		}
		f := &oracle.F{Op: op}
		for i := 0; i < k; i++ {
			if i == 0 && o.Shared != nil && k >= 2 && Chance(t, 1, 3, "sameOpFirst") {
				// first operand = an object of the same connective built earlier (a caller extending a shared
				// disjunction / conjunction with one more operand, several times)
				var same []*oracle.F
				for _, g := range *o.Shared {
					if g.Op == op && len(g.Kids) >= 2 {
						same = append(same, g)
					}
				}
				if len(same) > 0 {
					g := same[Uniform(t, 0, len(same)-1, "whichSame")]
					if g.Tag == "" {
						g.Tag = fmt.Sprintf("o%d", len(*o.Shared)*7+depth)
						for _, h := range *o.Shared {
							if h != g && h.Tag == g.Tag {
								g.Tag += "x"
							}
						}
					}
					f.Kids = append(f.Kids, oracle.Ref(g))
					continue
				}
			}
			f.Kids = append(f.Kids, Formula(t, o, depth+1, pol))
		}
		return f
	case "implies":
		return &oracle.F{Op: op, Kids: []*oracle.F{Formula(t, o, depth+1, -pol), Formula(t, o, depth+1, pol)}}
	default:
		return &oracle.F{Op: op, Kids: []*oracle.F{Formula(t, o, depth+1, 0), Formula(t, o, depth+1, 0)}}
	}
}

func uniqueGroup(t *rapid.T, o FormulaOpts, pol int) *oracle.F {
	maxG := o.MaxGroup
	if maxG > len(o.Names) {
		maxG = len(o.Names)
	}
	k := Uniform(t, 1, maxG, "group")
	if o.BigGroupsPos && pol != 1 && k > 4 {
		k = 4
		if o.Excluded != nil {
			*o.Excluded++
		}
	}
	perm := rapid.Permutation(append([]string{}, o.Names...)).Draw(t, "groupNames")
	names := perm[:k]
	if o.Groups != nil {
		if prev := *o.Groups; len(prev) > 0 && Chance(t, 1, 2, "related") {
			g := prev[Uniform(t, 0, len(prev)-1, "whichGroup")]
			if !(o.BigGroupsPos && pol != 1 && len(g) > 4) {
				switch rapid.IntRange(0, 2).Draw(t, "relation") {
				case 0: // the same names in another order
					names = rapid.Permutation(append([]string{}, g...)).Draw(t, "reorder")
				case 1: // same first and last name, same size, other names inside where the pool allows
					names = append([]string{}, g...)
					inGroup := map[string]bool{}
					for _, n := range g {
						inGroup[n] = true
					}
					var spare []string
					for _, n := range o.Names {
						if !inGroup[n] {
							spare = append(spare, n)
						}
					}
					for i := 1; i+1 < len(names) && len(spare) > 0; i++ {
						if rapid.Bool().Draw(t, "swapInner") {
							names[i], spare = spare[0], spare[1:]
						}
					}
					if len(names) > 3 && rapid.Bool().Draw(t, "swapTwo") {
						names[1], names[2] = names[2], names[1]
					}
				default: // reversed
					names = make([]string, len(g))
					for i, n := range g {
						names[len(g)-1-i] = n
					}
				}
			}
		}
		*o.Groups = append(*o.Groups, append([]string{}, names...))
	}
	f := &oracle.F{Op: "unique"}
	for _, n := range names {
		f.Kids = append(f.Kids, oracle.V(n))
	}
	return f
}

// oddNames are legal variable names for the Go API (bf.Var takes any string) that are not identifiers: punctuation,
// blanks, commas, percent signs, and texts that look like the printed form of a formula.
var oddNames = []string{"x[1,2]", "a, b", "not(a)", "and(a, b)", "%d", "load%", "50%%", "a b", "x.y", "p->q", "a, b, c",
	"or(a, b)", "~a", "-1", "0", "12", "a=b", "%s", "c d", "é", "unique(a, b)", "a", "b", "c", ""}

// Names returns k distinct variable names: v0..v(k-1) in three cases out of four, otherwise a drawn selection of
// names that are not identifiers (completed with v_i).
func Names(t *rapid.T, k int) []string {
	out := NamePool(k)
	if !Chance(t, 1, 4, "oddNames") {
		return out
	}
	perm := rapid.Permutation(append([]string{}, oddNames...)).Draw(t, "odd")
	for i := range out {
		if i < len(perm) && !Chance(t, 1, 4, "plain") {
			out[i] = perm[i]
		}
	}
	return out
}

// NamePool returns k variable names.
func NamePool(k int) []string {
	out := make([]string, k)
	for i := range out {
		out[i] = fmt.Sprintf("v%d", i)
	}
	return out
}
