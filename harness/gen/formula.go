package gen

import (
	"fmt"

	"pgregory.net/rapid"
	"verifharness/oracle"
)

// FormulaOpts controls Formula.
type FormulaOpts struct {
	MaxDepth     int
	Names        []string
	MaxGroup     int  // largest exactly-one group
	BigGroupsPos bool // groups of more than 4 names only at positive polarity (C12's domain; C11's open finding)
	NoConstants  bool
	NoEmpty      bool // no empty and()/or()
	Excluded     *int // counts big groups that were clipped because of BigGroupsPos
}

// Formula draws a formula tree. pol is the polarity of the position: +1, -1 or 0 (both).
func Formula(t *rapid.T, o FormulaOpts, depth, pol int) *oracle.F {
	leaf := depth >= o.MaxDepth || (depth > 0 && Chance(t, 1, 4, "leaf"))
	if leaf {
		switch rapid.IntRange(0, 9).Draw(t, "leafKind") {
		case 0:
			if !o.NoConstants {
				if rapid.Bool().Draw(t, "const") {
					return &oracle.F{Op: "true"}
				}
				return &oracle.F{Op: "false"}
			}
		case 1, 2:
			return uniqueGroup(t, o, pol)
		}
		return oracle.V(o.Names[Uniform(t, 0, len(o.Names)-1, "var")])
	}
	op := rapid.SampledFrom([]string{"not", "and", "and", "or", "or", "implies", "eq", "xor"}).Draw(t, "op")
	switch op {
	case "not":
		return &oracle.F{Op: op, Kids: []*oracle.F{Formula(t, o, depth+1, -pol)}}
	case "and", "or":
		lo := 0
		if o.NoEmpty {
			lo = 1
		}
		k := rapid.IntRange(lo, 4).Draw(t, "arity")
		if k == 0 && !Chance(t, 1, 3, "keepEmpty") {
			k = 2
		}
		f := &oracle.F{Op: op}
		for i := 0; i < k; i++ {
			f.Kids = append(f.Kids, Formula(t, o, depth+1, pol))
		}
		return f
	case "implies":
		return &oracle.F{Op: op, Kids: []*oracle.F{Formula(t, o, depth+1, -pol), Formula(t, o, depth+1, pol)}}
	default:
		return &oracle.F{Op: op, Kids: []*oracle.F{Formula(t, o, depth+1, 0), Formula(t, o, depth+1, 0)}}
	}
}

func uniqueGroup(t *rapid.T, o FormulaOpts, pol int) *oracle.F {
	maxG := o.MaxGroup
	if maxG > len(o.Names) {
		maxG = len(o.Names)
	}
	k := Uniform(t, 1, maxG, "group")
	if o.BigGroupsPos && pol != 1 && k > 4 {
		k = 4
		if o.Excluded != nil {
			*o.Excluded++
		}
	}
	perm := rapid.Permutation(append([]string{}, o.Names...)).Draw(t, "groupNames")
	f := &oracle.F{Op: "unique"}
	for _, n := range perm[:k] {
		f.Kids = append(f.Kids, oracle.V(n))
	}
	return f
}

// NamePool returns k variable names.
func NamePool(k int) []string {
	out := make([]string, k)
	for i := range out {
		out[i] = fmt.Sprintf("v%d", i)
	}
	return out
}
