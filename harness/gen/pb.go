package gen

import (
	"pgregory.net/rapid"
	"verifharness/oracle"
)

// PC is one user-level constraint together with the public constructor used to build it.
//
//	kind          meaning (oracle.Constr)                 constructor
//	gteq          sum w*l >= k                            solver.GtEq(lits, w|nil, k)
//	lteq          sum w*l <= k                            solver.LtEq(lits, w, k)
//	eq            sum w*l  = k                            solver.Eq(lits, w, k)
//	atleast       #true >= k                              solver.AtLeast(lits, k) / CardConstr{lits,k}
//	atmost        #true <= k                              solver.AtMost(lits, k)
//	clause        #true >= 1                              solver.PropClause(lits...) / AtLeast1
//	atmost1       #true <= 1                              solver.AtMost1(lits...)
//	exactly1      #true  = 1                              solver.Exactly1(lits...)
type PC struct {
	Kind  string `json:"kind"`
	Lits  []int  `json:"lits"`
	Coefs []int  `json:"coefs,omitempty"` // nil = all ones
	K     int    `json:"k"`
}

// Sem gives the meaning of the constraint as the caller wrote it.
func (p PC) Sem() oracle.Constr {
	c := oracle.Constr{Lits: append([]int{}, p.Lits...), K: p.K}
	if p.Coefs != nil {
		c.Coefs = append([]int{}, p.Coefs...)
	}
	switch p.Kind {
	case "gteq", "atleast":
		c.Rel = ">="
	case "lteq", "atmost":
		c.Rel = "<="
	case "eq":
		c.Rel = "="
	case "clause":
		c.Rel, c.K = ">=", 1
	case "atmost1":
		c.Rel, c.K = "<=", 1
	case "exactly1":
		c.Rel, c.K = "=", 1
	default:
		panic("gen: bad kind " + p.Kind)
	}
	return c
}

// Sems maps Sem over a list.
func Sems(ps []PC) []oracle.Constr {
	out := make([]oracle.Constr, len(ps))
	for i, p := range ps {
		out[i] = p.Sem()
	}
	return out
}

// PBOpts controls PBConstrs.
type PBOpts struct {
	MinN, MaxN int
	MaxConstrs int
	MaxArity   int
	Card       bool // cardinality front-end only (unit coefficients; kinds atleast/clause/atmost1/exactly1)
	NonNeg     bool // only positive coefficients and >= relation (MaxSAT API)
}

// PBConstr draws one constraint over variables 1..n.
func PBConstr(t *rapid.T, n int, o PBOpts, extreme bool) PC {
	arity := 1 + rapid.IntRange(0, min(o.MaxArity, n)-1).Draw(t, "arity")
	if arity < min(4, n) && Chance(t, 1, 3, "long") {
		arity = Uniform(t, min(3, n), min(o.MaxArity, n), "arity2") // long constraints with small degree
	}
	lits := DistinctLits(t, n, arity, "v")
	if o.Card {
		switch rapid.SampledFrom([]string{"atleast", "atleast", "atleast", "clause", "atmost1", "exactly1"}).Draw(t, "kind") {
		case "clause":
			return PC{Kind: "clause", Lits: lits}
		case "atmost1":
			return PC{Kind: "atmost1", Lits: lits}
		case "exactly1":
			return PC{Kind: "exactly1", Lits: lits}
		}
		return PC{Kind: "atleast", Lits: lits, K: degree(t, 0, arity, ">=", extreme)}
	}
	kind := "gteq"
	if !o.NonNeg {
		kind = rapid.SampledFrom([]string{"gteq", "gteq", "lteq", "eq", "atleast", "atmost", "clause"}).Draw(t, "kind")
	}
	switch kind {
	case "atleast":
		return PC{Kind: kind, Lits: lits, K: degree(t, 0, arity, ">=", extreme)}
	case "atmost":
		return PC{Kind: kind, Lits: lits, K: degree(t, 0, arity, "<=", extreme)}
	case "clause":
		return PC{Kind: kind, Lits: lits}
	}
	w := rapid.SampledFrom([]int{1, 4, 9}).Draw(t, "W")
	coefs := make([]int, arity)
	lo, hi := 0, 0
	for i := range coefs {
		if o.NonNeg {
			coefs[i] = rapid.IntRange(1, w).Draw(t, "w")
		} else {
			coefs[i] = rapid.IntRange(-w, w).Draw(t, "w")
		}
		if coefs[i] > 0 {
			hi += coefs[i]
		} else {
			lo += coefs[i]
		}
	}
	pc := PC{Kind: kind, Lits: lits, Coefs: coefs}
	pc.K = degree(t, lo, hi, pc.Sem().Rel, extreme)
	if kind == "gteq" && w == 1 && !o.NonNeg && allOnes(coefs) && rapid.Bool().Draw(t, "nilw") {
		pc.Coefs = nil // GtEq documents nil weights as "all ones"
	}
	return pc
}

func allOnes(ws []int) bool {
	for _, w := range ws {
		if w != 1 {
			return false
		}
	}
	return true
}

// degree draws a right-hand side. In "extreme" mode it may lie below the minimum or above
// the maximum of the left-hand side (trivially true / false constraints); otherwise it is
// drawn on the loose side of the range for the relation, where several constraints
// together stay satisfiable and search happens.
func degree(t *rapid.T, lo, hi int, rel string, extreme bool) int {
	if extreme {
		switch rapid.IntRange(0, 3).Draw(t, "degSel") {
		case 0:
			return lo - rapid.IntRange(0, 2).Draw(t, "below")
		case 1:
			return hi + rapid.IntRange(0, 2).Draw(t, "above")
		}
		return Uniform(t, lo, hi, "deg")
	}
	mid := lo + (hi-lo)/2
	switch rel {
	case ">=":
		return Uniform(t, min(lo+1, hi), max(mid, min(lo+1, hi)), "deg")
	case "<=":
		return Uniform(t, min(mid, max(hi-1, lo)), max(hi-1, lo), "deg")
	}
	return Uniform(t, lo, hi, "deg")
}

func max(a, b int) int {
	if a > b {
		return a
	}
	return b
}

// PBConstrs draws a constraint set; unit constraints are mixed in so that the
// parse-time simplifiers meet already-true and already-false literals.
func PBConstrs(t *rapid.T, o PBOpts) (int, []PC) {
	n := Uniform(t, o.MinN, o.MaxN, "n")
	m := Uniform(t, 1, o.MaxConstrs, "m")
	unitRate := rapid.SampledFrom([]int{0, 0, 1, 3}).Draw(t, "unitRate")
	extremeRate := rapid.SampledFrom([]int{0, 0, 1, 4}).Draw(t, "extremeRate")
	var ps []PC
	for i := 0; i < m; i++ {
		if unitRate > 0 && Chance(t, unitRate, 10, "unit") {
			l := Lit(t, n, "u")
			if o.Card {
				ps = append(ps, PC{Kind: "atleast", Lits: []int{l}, K: 1})
			} else {
				ps = append(ps, PC{Kind: "gteq", Lits: []int{l}, Coefs: []int{1}, K: 1})
			}
			continue
		}
		ps = append(ps, PBConstr(t, n, o, extremeRate > 0 && Chance(t, extremeRate, 10, "extreme")))
	}
	return n, ps
}

func min(a, b int) int {
	if a < b {
		return a
	}
	return b
}

// CardFan draws a problem made of one or two long cardinality constraints (at least K of 6..9 literals, K in 3..4)
// and fans of binary clauses: a trigger variable whose value falsifies several literals of a constraint at once (in
// the order of their positions, in reverse order, or shuffled), another one that makes some of the spare literals
// true, and a few loose binary clauses. Everything is written as constraints ("clause" / "atleast"). n <= 13.
func CardFan(t *rapid.T) (int, []PC) {
	n := Uniform(t, 9, 13, "n")
	perm := rapid.Permutation(seq(1, n)).Draw(t, "vars")
	sign := func(v int) int {
		if rapid.Bool().Draw(t, "neg") {
			return -v
		}
		return v
	}
	var out []PC
	next := 0
	take := func() int { v := perm[next%n]; next++; return v }
	p, q := take(), take()
	for c, nc := 0, rapid.IntRange(1, 2).Draw(t, "constraints"); c < nc; c++ {
		k := rapid.IntRange(3, 4).Draw(t, "k")
		ln := Uniform(t, k+3, min(k+5, n-2), "len")
		var ls []int
		for i := 0; i < ln; i++ {
			ls = append(ls, sign(take()))
		}
		out = append(out, PC{Kind: "atleast", Lits: ls, K: k})
		// the fan: trigger p falsifies 2..k+1 of the first k+1 literals
		first := append([]int{}, ls[:k+1]...)
		switch rapid.IntRange(0, 2).Draw(t, "fanOrder") {
		case 0:
			for i, j := 0, len(first)-1; i < j; i, j = i+1, j-1 {
				first[i], first[j] = first[j], first[i]
			}
		case 1:
			first = rapid.Permutation(first).Draw(t, "shuffled")
		}
		trig := p
		if c == 1 && rapid.Bool().Draw(t, "otherTrigger") {
			trig = -p
		}
		for _, l := range first[:Uniform(t, 2, len(first), "fanWidth")] {
			out = append(out, PC{Kind: "clause", Lits: []int{trig, -l}})
		}
		// q makes some spare literals true
		for _, l := range ls[k+1:] {
			if rapid.Bool().Draw(t, "spare") {
				out = append(out, PC{Kind: "clause", Lits: []int{q, l}})
			}
		}
	}
	for i, m := 0, rapid.IntRange(0, 4).Draw(t, "loose"); i < m; i++ {
		out = append(out, PC{Kind: "clause", Lits: DistinctLits(t, n, 2, "b")})
	}
	return n, out
}
