//go:build verif

// C14 — the cutting-planes strategy never changes an answer.
package c14

import (
	"errors"
	"fmt"
	"strings"
	"testing"

	"github.com/crillab/gophersat/solver"
	"pgregory.net/rapid"
	"verifharness/gen"
	"verifharness/gs"
	"verifharness/oracle"
	"verifharness/vf"
)

type Case struct {
	Front   string       `json:"front"` // cnf | card | pb
	N       int          `json:"n"`
	Clauses [][]int      `json:"clauses,omitempty"`
	Constrs []gen.PC     `json:"constrs,omitempty"`
	Cost    *oracle.Cost `json:"cost,omitempty"`
	Detect  bool         `json:"detect"`          // DetectAtMostOne before solving
	NbMax   int          `json:"nbmax,omitempty"` // lowered learned-constraint limit (verif hook): reduction of the learned PB constraints
	Family  string       `json:"family,omitempty"`
	// Late > 0 (problems without cost function): one more run in which the solver is built from the problem without its
	// last Late constraints, these are added with AppendClause (their variables may be new to the solver), and only
	// then is the strategy switched on: CuttingPlanes is an exported field that a caller may set at any time.
	Late int `json:"late,omitempty"`
}

func build(c Case) *solver.Problem {
	var pb *solver.Problem
	switch c.Front {
	case "cnf":
		pb = solver.ParseSliceNb(oracle.CloneCNF(c.Clauses), c.N)
	case "card":
		pb = solver.ParseCardConstrs(gs.CardConstrsOf(c.Constrs))
	case "pb":
		cs := gs.PBConstrsOf(c.Constrs)
		cs = append(cs, solver.GtEq([]int{c.N}, []int{1}, 0))
		pb = solver.ParsePBConstrs(cs)
	}
	if c.Cost != nil && pb.Status != solver.Unsat {
		var ls []solver.Lit
		var ws []int
		for i, l := range c.Cost.Lits {
			v := l
			if v < 0 {
				v = -v
			}
			if v <= pb.NbVars {
				ls = append(ls, solver.IntToLit(int32(l)))
				ws = append(ws, c.Cost.W[i])
			}
		}
		if len(ls) > 0 {
			pb.SetCostFunc(ls, ws)
		}
	}
	if c.Detect && pb.Status != solver.Unsat {
		pb.DetectAtMostOne()
	}
	return pb
}

func effectiveCost(c Case, pb *solver.Problem) func(uint64) int {
	return func(m uint64) int {
		if c.Cost == nil {
			return 0
		}
		s := 0
		for i, l := range c.Cost.Lits {
			v := l
			if v < 0 {
				v = -v
			}
			if v <= pb.NbVars && oracle.LitTrue(l, m) {
				s += c.Cost.W[i]
			}
		}
		return s
	}
}

type learned struct {
	lits, ws []int
	degree   int
}

// check0 returns the failure with a signature prefix in square brackets.
func check0(c Case, o *vf.Obs) error {
	o.Class("front-" + c.Front)
	o.ClassIf(c.Family != "", "family-"+c.Family)
	o.ClassIf(c.Detect, "with-detection")
	o.ClassIf(c.Cost != nil, "with-cost")
	var sems []oracle.Constr
	if c.Front == "cnf" {
		for _, cl := range c.Clauses {
			sems = append(sems, oracle.Clause(cl...))
		}
	} else {
		sems = gen.Sems(c.Constrs)
	}
	n := c.N
	if mv := oracle.MaxVarConstrs(sems); mv > n {
		n = mv
	}
	small := n <= 20
	var models []uint64
	if small {
		models = oracle.Models(n, func(m uint64) bool { return oracle.AllTrue(sems, m) })
	}

	// strategy off
	gs.Arm(c.NbMax, gs.DefaultStepLimit)
	defer func() { gs.Arm(0, 0); solver.VerifCPLearned = nil; solver.VerifCPUnsat = nil }()
	pbOff := build(c)
	costOf := effectiveCost(c, pbOff)
	off := solver.New(pbOff).Optimal(nil, nil)

	// strategy on, decision run with the hooks: every learned constraint must be implied by the
	// original problem (an optimisation run also learns from the bound-strengthening constraints
	// it adds, so implication by the original problem alone is only claimed for Solve)
	var ls []learned
	site := ""
	solver.VerifCPLearned = func(lits, ws []int, degree int) {
		ls = append(ls, learned{append([]int{}, lits...), append([]int{}, ws...), degree})
	}
	solver.VerifCPUnsat = func(s string) { site = s }
	gs.Arm(c.NbMax, 1_000_000)
	pbOn := build(c)
	domain := "A"
	if c.Front != "cnf" {
		domain = "B"
	}
	for _, cl := range pbOn.Clauses {
		if !cl.PseudoBoolean() && cl.Cardinality() > 1 {
			domain = "B" // detection turned a clique into a cardinality constraint
		}
	}
	o.Class("domain-" + domain)
	sOn := solver.New(pbOn)
	sOn.CuttingPlanes = true
	var on solver.Result
	perr := vf.Safely(func() error {
		on.Status = sOn.Solve()
		if on.Status == solver.Sat {
			on.Model = sOn.Model()
		}
		return nil
	})
	solver.VerifCPLearned = nil
	if perr == nil && c.Cost != nil {
		gs.Arm(c.NbMax, 1_000_000)
		site = ""
		sOpt := solver.New(build(c))
		sOpt.CuttingPlanes = true
		perr = vf.Safely(func() error { on = sOpt.Optimal(nil, nil); return nil })
		o.ClassIf(sOpt.Stats.NbRestarts > 0, "cp-opt-restart>0")
		o.ClassIf(sOpt.Stats.NbConflicts >= 512, "cp-opt-conflicts>=512")
		o.ClassIf(sOpt.Stats.NbDeleted > 0, "cp-opt-reduceDB>0")
	} else if on.Status == solver.Sat {
		on.Weight = costOf(oracle.MaskOf(on.Model))
	}
	solver.VerifCPUnsat = nil
	tag := func(format string, a ...any) error {
		return fmt.Errorf("[domain-"+domain+"] "+format, a...)
	}

	o.ClassIf(len(ls) > 0, "cp-learned>0")
	coefBig := false
	for _, l := range ls {
		for _, w := range l.ws {
			if w > 1 {
				coefBig = true
			}
		}
	}
	o.ClassIf(coefBig, "cp-learned-coef>1")
	o.ClassIf(sOn.Stats.NbConflicts > 0, "conflicts>0")
	o.ClassIf(sOn.Stats.NbDeleted > 0, "cp-reduceDB>0")
	o.ClassIf(sOn.Stats.NbRestarts > 0, "cp-restart>0")
	if len(ls) > 0 {
		o.Nontrivial()
	}
	// (1) every learned constraint is implied by the original problem
	for i, l := range ls {
		lc := oracle.Constr{Lits: l.lits, Coefs: l.ws, Rel: ">=", K: l.degree}
		if small {
			for _, m := range models {
				if !lc.True(m) {
					return tag("[cp-learned-not-implied] learned constraint #%d %v is falsified by the model %0*b of the original problem", i, lc, n, m)
				}
			}
		}
	}
	if perr != nil {
		if errors.Is(perr, vf.ErrInconclusive) {
			return tag("[cp-step-limit] %w", perr)
		}
		return tag("[cp-panic] %v", perr)
	}
	// (2) same verdict, same optimum, valid model
	truthSat := off.Status == solver.Sat
	best := off.Weight
	if small {
		b, feasible, _ := oracle.Minimum(n, func(m uint64) bool { return oracle.AllTrue(sems, m) }, costOf)
		if feasible != truthSat || feasible && b != off.Weight {
			return tag("[default-strategy-wrong] default strategy answers (%v, %d); truth: feasible=%v minimum=%d", off.Status, off.Weight, feasible, b)
		}
		best = b
	}
	o.ClassIf(truthSat, "sat")
	o.ClassIf(!truthSat, "unsat")
	if on.Status != off.Status {
		if on.Status == solver.Unsat {
			return tag("[cp-false-unsat site=%s] Unsat with cutting planes, %v without (satisfiable=%v)", site, off.Status, truthSat)
		}
		return tag("[cp-false-sat] %v with cutting planes, %v without", on.Status, off.Status)
	}
	if on.Status == solver.Sat {
		m := oracle.MaskOf(on.Model)
		if i := oracle.FirstFalse(sems, m); i >= 0 {
			return tag("[cp-invalid-model] model with cutting planes violates constraint #%d %v", i, sems[i])
		}
		if got := costOf(m); got != on.Weight {
			return tag("[cp-wrong-cost] reported cost %d, cost function on the model gives %d", on.Weight, got)
		}
		if on.Weight != best {
			return tag("[cp-wrong-optimum] optimum %d with cutting planes, %d without / by brute force", on.Weight, best)
		}
	}
	return nil
}

func check(c Case, o *vf.Obs) error {
	if err := check0(c, o); err != nil {
		return err
	}
	if c.Late > 0 && c.Cost == nil {
		return vf.Safely(func() error { return checkLate(c, o) })
	}
	return nil
}

// appendable: the constraint can be handed to AppendClause through the public clause constructors.
func appendable(p gen.PC) bool {
	switch p.Kind {
	case "clause":
		return len(p.Lits) > 0
	case "atleast":
		return p.K >= 1 && p.K <= len(p.Lits)
	case "gteq":
		if p.K < 1 || len(p.Lits) == 0 {
			return false
		}
		sum := 0
		for _, w := range p.Coefs {
			if w < 1 {
				return false
			}
			sum += w
		}
		return len(p.Coefs) == len(p.Lits) && sum >= p.K
	}
	return false
}

func checkLate(c Case, o *vf.Obs) error {
	var all []gen.PC
	if c.Front == "cnf" {
		for _, cl := range c.Clauses {
			all = append(all, gen.PC{Kind: "clause", Lits: cl})
		}
	} else {
		all = c.Constrs
	}
	late := 0
	for late < c.Late && late < len(all) && appendable(all[len(all)-1-late]) {
		late++
	}
	if late == 0 {
		return nil
	}
	o.Class("strategy-switched-on-after-appending")
	head, tail := all[:len(all)-late], all[len(all)-late:]
	prefix := c
	prefix.Detect = false
	if c.Front == "cnf" {
		prefix.Clauses = c.Clauses[:len(c.Clauses)-late]
		prefix.N = oracle.MaxVar(prefix.Clauses)
	} else {
		prefix.Constrs = head
		prefix.N = oracle.MaxVarConstrs(gen.Sems(head))
		if prefix.N < 1 {
			prefix.N = 1
		}
	}
	sems := gen.Sems(all)
	n := c.N
	if mv := oracle.MaxVarConstrs(sems); mv > n {
		n = mv
	}
	gs.Arm(c.NbMax, 1_000_000)
	defer gs.Arm(0, 0)
	s := solver.New(build(prefix))
	for _, p := range tail {
		ls := make([]solver.Lit, len(p.Lits))
		for i, l := range p.Lits {
			ls[i] = solver.IntToLit(int32(l))
		}
		switch p.Kind {
		case "clause":
			s.AppendClause(solver.NewClause(ls))
		case "atleast":
			s.AppendClause(solver.NewCardClause(ls, p.K))
		default:
			s.AppendClause(solver.NewPBClause(ls, append([]int{}, p.Coefs...), p.K))
		}
	}
	s.CuttingPlanes = true
	st := s.Solve()
	var truth bool
	if n <= 20 {
		_, truth = oracle.AnyModel(n, func(m uint64) bool { return oracle.AllTrue(sems, m) })
	} else {
		ref := solver.New(build(c))
		truth = ref.Solve() == solver.Sat
	}
	if (st == solver.Sat) != truth {
		return fmt.Errorf("[late-switch] solver built from the problem without its last %d constraints, these appended, then CuttingPlanes switched on: Solve = %v, satisfiable=%v", late, st, truth)
	}
	if st == solver.Sat {
		if i := oracle.FirstFalse(sems, oracle.MaskOf(s.Model())); i >= 0 {
			return fmt.Errorf("[late-switch] the model violates constraint #%d %v", i, sems[i])
		}
	}
	return nil
}

func stepFails(c Case) bool { return c.N <= 12 }

func genCNF(t *rapid.T) Case {
	var c Case
	c.Front = "cnf"
	switch rapid.IntRange(0, 4).Draw(t, "family") {
	case 4:
		c.N = gen.Uniform(t, 3, 10, "n")
		c.Clauses, _ = gen.CliqueRich(t, c.N)
		c.Family = "clique-rich"
		c.Detect = !gen.Chance(t, 1, 5, "noDetect")
		return c
	case 0:
		c.N, c.Clauses = gen.FormulaSmall(t)
		c.Family = "small"
	case 1:
		c.N, c.Clauses, c.Family = gen.FormulaHardSmall(t)
	case 2:
		c.N, c.Clauses = gen.FormulaThreshold(t, 10, 20)
		c.Family = "threshold-small"
	default:
		c.N, c.Clauses = gen.FormulaThreshold(t, 21, 40)
		c.Family = "threshold-n21-40"
	}
	c.Detect = rapid.Bool().Draw(t, "detect")
	if gen.Chance(t, 1, 4, "late") {
		c.Late = rapid.IntRange(1, 6).Draw(t, "lateN")
	}
	if rapid.Bool().Draw(t, "low") {
		c.NbMax = rapid.IntRange(2, 30).Draw(t, "limit")
	}
	return c
}

func genPB(front string) func(t *rapid.T) Case {
	return func(t *rapid.T) Case {
		c := Case{Front: front}
		switch rapid.IntRange(0, 3).Draw(t, "family") {
		case 0, 1:
			c.N, c.Constrs = gen.PBConstrs(t, gen.PBOpts{MinN: 2, MaxN: 10, MaxConstrs: 8, MaxArity: 6, Card: front == "card"})
			c.Family = "uniform"
		case 2: // pigeonhole with cardinality constraints: conflicts guaranteed
			holes := rapid.IntRange(2, 3).Draw(t, "holes")
			pigeons := holes + 1
			if gen.Chance(t, 1, 4, "drop") {
				pigeons = holes
			}
			v := func(p, h int) int { return p*holes + h + 1 }
			for p := 0; p < pigeons; p++ {
				var ls []int
				for h := 0; h < holes; h++ {
					ls = append(ls, v(p, h))
				}
				c.Constrs = append(c.Constrs, gen.PC{Kind: "clause", Lits: ls})
			}
			for h := 0; h < holes; h++ {
				var ls []int
				for p := 0; p < pigeons; p++ {
					ls = append(ls, v(p, h))
				}
				if len(ls) >= 2 {
					c.Constrs = append(c.Constrs, gen.PC{Kind: "atmost1", Lits: ls})
				}
			}
			c.N = pigeons * holes
			c.Family = "pigeonhole-card"
		default: // covering rows: several constraints that conflict
			if front == "card" {
				c.N, c.Constrs = gen.PBConstrs(t, gen.PBOpts{MinN: 4, MaxN: 10, MaxConstrs: 10, MaxArity: 5, Card: true})
				c.Family = "uniform-dense"
			} else {
				var cost oracle.Cost
				c.N, c.Constrs, cost = gen.SetCover(t, 4, 10)
				c.Cost = &cost
				c.Family = "set-cover"
			}
		}
		if c.Cost == nil && gen.Chance(t, 1, 4, "cost") {
			cf := gen.CostFunc(t, c.N, false)
			if cf.W == nil {
				cf.W = make([]int, len(cf.Lits))
				for i := range cf.W {
					cf.W[i] = 1
				}
			}
			c.Cost = &cf
		}
		c.Detect = gen.Chance(t, 1, 3, "detect")
		if gen.Chance(t, 1, 4, "late") {
			c.Late = rapid.IntRange(1, 4).Draw(t, "lateN")
		}
		if rapid.Bool().Draw(t, "low") {
			c.NbMax = rapid.IntRange(2, 30).Draw(t, "limit")
		}
		return c
	}
}

// genKnapsack: optimisation problems with knapsack equalities over 12..17 variables: hundreds of conflicts
// under cutting planes, so that its Luby restarts (every 512 conflicts) and constraint-database reductions
// happen; some cost literals are fixed by unit constraints.
func genKnapsack(t *rapid.T) Case {
	c := Case{Front: "pb", Family: "knapsack-eq"}
	c.N = gen.Uniform(t, 14, 17, "n")
	for i, m := 0, 2; i < m; i++ {
		lits := gen.DistinctLits(t, c.N, gen.Uniform(t, c.N-2, c.N, "arity"), "l")
		coefs := make([]int, len(lits))
		sum := 0
		for j := range lits {
			if lits[j] < 0 {
				lits[j] = -lits[j]
			}
			coefs[j] = gen.Uniform(t, 1, 30, "a")
			sum += coefs[j]
		}
		c.Constrs = append(c.Constrs, gen.PC{Kind: "eq", Lits: lits, Coefs: coefs, K: gen.Uniform(t, sum/4, sum/2, "b")})
	}
	cf := oracle.Cost{Lits: make([]int, c.N), W: make([]int, c.N)}
	for v := 1; v <= c.N; v++ {
		cf.Lits[v-1] = v
		cf.W[v-1] = gen.Uniform(t, 1, 12, "w")
	}
	c.Cost = &cf
	for i, m := 0, rapid.IntRange(1, 2).Draw(t, "fixed"); i < m; i++ {
		c.Constrs = append(c.Constrs, gen.PC{Kind: "gteq", Lits: []int{gen.Uniform(t, 1, c.N, "f")}, Coefs: []int{1}, K: 1})
	}
	if rapid.Bool().Draw(t, "low") {
		c.NbMax = rapid.IntRange(20, 200).Draw(t, "limit")
	}
	return c
}

var _ = strings.Contains

func init() {
	tail := "; each problem is solved/optimised with CuttingPlanes off and on (and, for a quarter of the problems without cost function, once more by a solver built without the last 1..6 constraints, which are then appended, the strategy being switched on last); the verif hook hands every constraint learned by the cutting-planes analysis to the harness, which evaluates it on all models of the original problem (n<=20); asserted: same verdict and optimum as without the strategy and as brute force, valid model, no panic, step watchdog (10^6 loop iterations; a failure for n<=12); non-trivial = >=1 constraint learned by the cutting-planes analysis"
	vf.Register(
		vf.Sub[Case]{Name: "cnf", Quick: 1200, Thorough: 8000, Gen: genCNF, Check: check, Floor: 0.3, StepLimitFails: stepFails,
			Rule: "domain A, pure CNF: small formulas with odd clause shapes, parity/pigeonhole formulas, threshold 3-SAT n in 10..40, clique-rich formulas (what DetectAtMostOne rewrites); with/without prior DetectAtMostOne" + tail},
		vf.Sub[Case]{Name: "knapsack", Quick: 400, Thorough: 1000, Gen: genKnapsack, Check: check, Floor: 0.5,
			Rule: "domain B, optimisation with 1..2 knapsack equalities (coefficients 1..25) over 12..17 variables, weighted objective over all variables, 0..2 cost literals fixed by unit constraints: hundreds to thousands of conflicts under cutting planes (restarts, reductions); brute force over 2^n" + tail},
		vf.Sub[Case]{Name: "card", Quick: 10000, Thorough: 40000, Gen: genPB("card"), Check: check, Floor: 0.1, StepLimitFails: stepFails,
			Rule: "domain B, cardinality problems via ParseCardConstrs: uniform, dense, pigeonhole with at-most-one constraints; optional cost function; with/without prior DetectAtMostOne" + tail},
		vf.Sub[Case]{Name: "pb", Quick: 10000, Thorough: 40000, Gen: genPB("pb"), Check: check, Floor: 0.1, StepLimitFails: stepFails,
			Rule: "domain B, PB problems via ParsePBConstrs: uniform, pigeonhole, set cover with cost function; with/without prior DetectAtMostOne" + tail},
	)
}

func TestMain(m *testing.M)   { vf.Main(m, "C14") }
func TestCorpus(t *testing.T) { vf.Corpus(t) }
func TestProp(t *testing.T)   { vf.RunAll(t) }
func TestReplay(t *testing.T) { vf.ReplayEnv(t) }

// native fuzz targets (thorough tier): the fuzzer mutates the byte stream that rapid decodes into generator choices
func FuzzCPCard(f *testing.F) { vf.FuzzNamed(f, "C14", "card") }
func FuzzCPPB(f *testing.F)   { vf.FuzzNamed(f, "C14", "pb") }
