package oracle

import (
	"fmt"
	"sort"
	"strings"
)

// F is a boolean formula tree with the standard semantics of each connective.
// Op: var | true | false | not | and | or | implies | eq | xor | unique.
// "unique" holds variable leaves only (exactly one of them is true).
//
// Sharing: a node may carry a Tag, and a node {Op: "ref", Name: tag} stands for *the same object* as the
// tagged node (which comes earlier in depth-first order). Semantically a ref is its target; builders
// (bfx.Build) hand the very same formula value to both places, which is how a caller reuses a sub-formula.
// Call Link on the root after decoding a formula from JSON.
type F struct {
	Op     string `json:"op"`
	Name   string `json:"name,omitempty"`
	Kids   []*F   `json:"kids,omitempty"`
	Tag    string `json:"tag,omitempty"`
	target *F
}

// Link resolves the refs of the tree rooted at f (idempotent).
func (f *F) Link() {
	tags := map[string]*F{}
	var walk func(g *F)
	walk = func(g *F) {
		if g.Op == "ref" {
			g.target = tags[g.Name]
			if g.target == nil {
				panic("oracle.F: dangling ref " + g.Name)
			}
			return
		}
		for _, k := range g.Kids {
			walk(k)
		}
		if g.Tag != "" { // after its kids: a ref always points to a completed sub-formula
			tags[g.Tag] = g
		}
	}
	walk(f)
}

// Ref makes a node standing for the same object as g (which must carry a Tag).
func Ref(g *F) *F {
	if g.Tag == "" {
		panic("oracle.Ref: target has no tag")
	}
	return &F{Op: "ref", Name: g.Tag, target: g}
}

// Deref returns the node a ref stands for (the node itself otherwise).
func (f *F) Deref() *F {
	for f.Op == "ref" {
		if f.target == nil {
			panic("oracle.F: ref " + f.Name + " not linked (call Link on the root)")
		}
		f = f.target
	}
	return f
}

func V(name string) *F { return &F{Op: "var", Name: name} }

// Eval evaluates the formula; and() is true, or() is false, unique() of no variable is false.
func (f *F) Eval(env map[string]bool) bool {
	f = f.Deref()
	switch f.Op {
	case "var":
		return env[f.Name]
	case "true":
		return true
	case "false":
		return false
	case "not":
		return !f.Kids[0].Eval(env)
	case "and":
		for _, k := range f.Kids {
			if !k.Eval(env) {
				return false
			}
		}
		return true
	case "or":
		for _, k := range f.Kids {
			if k.Eval(env) {
				return true
			}
		}
		return false
	case "implies":
		return !f.Kids[0].Eval(env) || f.Kids[1].Eval(env)
	case "eq":
		return f.Kids[0].Eval(env) == f.Kids[1].Eval(env)
	case "xor":
		return f.Kids[0].Eval(env) != f.Kids[1].Eval(env)
	case "unique":
		n := 0
		for _, k := range f.Kids {
			if k.Eval(env) {
				n++
			}
		}
		return n == 1
	}
	panic("oracle.F: bad op " + f.Op)
}

// Vars returns the sorted names of the variables of the formula.
func (f *F) Vars() []string {
	set := map[string]bool{}
	var walk func(*F)
	walk = func(g *F) {
		g = g.Deref()
		if g.Op == "var" {
			set[g.Name] = true
		}
		for _, k := range g.Kids {
			walk(k)
		}
	}
	walk(f)
	out := make([]string, 0, len(set))
	for n := range set {
		out = append(out, n)
	}
	sort.Strings(out)
	return out
}

func (f *F) String() string {
	if f.Op == "ref" {
		return "@" + f.Name
	}
	switch f.Op {
	case "var":
		return f.Name
	case "true":
		return "T"
	case "false":
		return "F"
	}
	parts := make([]string, len(f.Kids))
	for i, k := range f.Kids {
		parts[i] = k.String()
	}
	tag := ""
	if f.Tag != "" {
		tag = f.Tag + ":"
	}
	return fmt.Sprintf("%s%s(%s)", tag, f.Op, strings.Join(parts, ","))
}

// Size counts nodes.
func (f *F) Size() int {
	n := 1
	for _, k := range f.Kids {
		n += k.Size()
	}
	return n
}

// EnvOf builds an environment from a mask over the given names (bit i = names[i]).
func EnvOf(names []string, m uint64) map[string]bool {
	env := make(map[string]bool, len(names))
	for i, n := range names {
		env[n] = m>>uint(i)&1 == 1
	}
	return env
}

// FormulaModels returns the masks (over names) of the satisfying assignments.
func FormulaModels(f *F, names []string) []uint64 {
	var out []uint64
	for m := uint64(0); m < 1<<uint(len(names)); m++ {
		if f.Eval(EnvOf(names, m)) {
			out = append(out, m)
		}
	}
	return out
}

// Walk visits every node with its polarity: +1 positive, -1 negative, 0 both (under eq/xor).
func (f *F) Walk(pol int, visit func(g *F, pol int)) {
	f = f.Deref()
	visit(f, pol)
	switch f.Op {
	case "not":
		f.Kids[0].Walk(-pol, visit)
	case "implies":
		f.Kids[0].Walk(-pol, visit)
		f.Kids[1].Walk(pol, visit)
	case "eq", "xor":
		f.Kids[0].Walk(0, visit)
		f.Kids[1].Walk(0, visit)
	case "unique":
	default:
		for _, k := range f.Kids {
			k.Walk(pol, visit)
		}
	}
}
