package oracle

import (
	"math/rand"
	"testing"
)

// naiveRUP is the definition, executed the slow way: used to cross-check the fast checker.
func naiveRUP(n int, db [][]int, c []int) bool {
	val := make([]int8, n+1)
	set := func(l int) bool { // false on contradiction
		v, s := l, int8(1)
		if l < 0 {
			v, s = -l, -1
		}
		if val[v] == -s {
			return false
		}
		val[v] = s
		return true
	}
	for i, l := range c { // a tautological clause is trivially implied
		for _, m := range c[:i] {
			if m == -l {
				return true
			}
		}
	}
	for _, l := range c {
		if !set(-l) {
			return true
		}
	}
	for changed := true; changed; {
		changed = false
		for _, cl := range db {
			taut := false
			for i, l := range cl {
				for _, m := range cl[:i] {
					if m == -l {
						taut = true
					}
				}
			}
			if taut {
				continue
			}
			sat, free, last := false, 0, 0
			seen := map[int]bool{}
			for _, l := range cl {
				v, s := l, int8(1)
				if l < 0 {
					v, s = -l, -1
				}
				if val[v] == s {
					sat = true
				} else if val[v] == 0 && !seen[l] {
					seen[l] = true
					free++
					last = l
				}
			}
			if sat {
				continue
			}
			if free == 0 {
				return true
			}
			if free == 1 {
				set(last)
				changed = true
			}
		}
	}
	return false
}

func randClause(rng *rand.Rand, n int) []int {
	var cl []int
	for j, ln := 0, rng.Intn(4); j < ln; j++ {
		l := 1 + rng.Intn(n)
		if rng.Intn(2) == 0 {
			l = -l
		}
		cl = append(cl, l)
	}
	return cl
}

func TestRUPAgainstDefinition(t *testing.T) {
	rng := rand.New(rand.NewSource(1))
	for iter := 0; iter < 20000; iter++ {
		n := 1 + rng.Intn(7)
		var db [][]int
		r := NewRUP(n, nil)
		for k, m := 0, rng.Intn(12); k < m; k++ {
			q := randClause(rng, n)
			if got, want := r.Check(q), naiveRUP(n, db, q); got != want {
				t.Fatalf("db %v clause %v: fast checker %v, definition %v", db, q, got, want)
			}
			cl := randClause(rng, n)
			db = append(db, cl)
			r.Add(cl)
		}
	}
}
