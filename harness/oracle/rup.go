package oracle

// An independent reverse-unit-propagation checker, written from the definition:
// clause C is RUP w.r.t. database D when unit propagation on D plus the negation
// of every literal of C reaches a conflict. Clauses are literal *sets*:
// duplicate literals are dropped and tautologies are ignored (they can neither
// propagate nor conflict).

// RUP is a clause database with occurrence lists.
type RUP struct {
	n      int
	cls    [][]int
	occ    [][]int // occ[idx(l)] = clauses containing literal l
	assign []int8
	empty  bool // the database contains the empty clause
}

func idx(l int) int {
	if l > 0 {
		return 2 * l
	}
	return -2*l + 1
}

// NewRUP creates a database over variables 1..n holding the given clauses.
func NewRUP(n int, cls [][]int) *RUP {
	r := &RUP{n: n, occ: make([][]int, 2*n+2), assign: make([]int8, n+1)}
	for _, c := range cls {
		r.Add(c)
	}
	return r
}

func normalise(c []int) (out []int, taut bool) {
	seen := map[int]bool{}
	for _, l := range c {
		if seen[-l] {
			return nil, true
		}
		if !seen[l] {
			seen[l] = true
			out = append(out, l)
		}
	}
	return out, false
}

// Add appends a clause to the database (without checking it).
func (r *RUP) Add(c []int) {
	nc, taut := normalise(c)
	if taut {
		return
	}
	if len(nc) == 0 {
		r.empty = true
		return
	}
	for _, l := range nc {
		v := l
		if v < 0 {
			v = -v
		}
		if v > r.n {
			r.grow(v)
		}
	}
	id := len(r.cls)
	r.cls = append(r.cls, nc)
	for _, l := range nc {
		r.occ[idx(l)] = append(r.occ[idx(l)], id)
	}
}

func (r *RUP) grow(n int) {
	for r.n < n {
		r.n++
		r.occ = append(r.occ, nil, nil)
		r.assign = append(r.assign, 0)
	}
}

func (r *RUP) val(l int) int8 {
	if l > 0 {
		return r.assign[l]
	}
	return -r.assign[-l]
}

func (r *RUP) set(l int, trail *[]int) {
	if l > 0 {
		r.assign[l] = 1
		*trail = append(*trail, l)
	} else {
		r.assign[-l] = -1
		*trail = append(*trail, -l)
	}
}

// Check reports whether clause c is RUP with respect to the current database.
func (r *RUP) Check(c []int) bool {
	if r.empty {
		return true
	}
	nc, taut := normalise(c)
	if taut {
		return true // a tautology is trivially implied
	}
	for _, l := range nc {
		v := l
		if v < 0 {
			v = -v
		}
		if v > r.n {
			r.grow(v)
		}
	}
	var trail []int // variables assigned
	defer func() {
		for _, v := range trail {
			r.assign[v] = 0
		}
	}()
	var queue []int // literals made true, to propagate
	for _, l := range nc {
		// assign ¬l
		switch r.val(-l) {
		case 0:
			r.set(-l, &trail)
			queue = append(queue, -l)
		case -1:
			return true // cannot happen after normalisation, kept for safety
		}
	}
	// initial scan: unit / empty clauses of the database under the assumption
	for id := range r.cls {
		if u, st := r.status(id); st == 0 {
			return true
		} else if st == 1 {
			if r.val(u) == 0 {
				r.set(u, &trail)
				queue = append(queue, u)
			}
		}
	}
	for len(queue) > 0 {
		l := queue[0]
		queue = queue[1:]
		for _, id := range r.occ[idx(-l)] {
			u, st := r.status(id)
			if st == 0 {
				return true
			}
			if st == 1 && r.val(u) == 0 {
				r.set(u, &trail)
				queue = append(queue, u)
			}
		}
	}
	return false
}

// status returns (unit literal, state) where state is 0 = falsified, 1 = unit, 2 = satisfied or open.
func (r *RUP) status(id int) (int, int) {
	un, last := 0, 0
	for _, l := range r.cls[id] {
		switch r.val(l) {
		case 1:
			return 0, 2
		case 0:
			un++
			last = l
			if un > 1 {
				return 0, 2
			}
		}
	}
	if un == 0 {
		return 0, 0
	}
	return last, 1
}

// CheckTrace replays a whole trace: every line must be RUP w.r.t. the formula plus
// the earlier lines. It returns the index of the first line that is not, or -1,
// and whether the empty clause is RUP-derivable at the end.
func CheckTrace(n int, formula [][]int, lines [][]int) (badLine int, refuted bool) {
	r := NewRUP(n, formula)
	for i, c := range lines {
		if !r.Check(c) {
			return i, false
		}
		r.Add(c)
	}
	return -1, r.Check(nil)
}
