package oracle

// An independent reverse-unit-propagation checker, written from the definition:
// clause C is RUP w.r.t. database D when unit propagation on D plus the negation
// of every literal of C reaches a conflict. Clauses are literal *sets*:
// duplicate literals are dropped and tautologies are ignored (they can neither
// propagate nor conflict).
//
// Implementation: counter-based propagation over occurrence lists. The facts that
// unit propagation derives from the database alone are kept assigned permanently
// ("base" assignment), so that a check only touches the clauses that hold a
// literal it assigns. This keeps the replay of traces with thousands of long
// clauses (hundreds to thousands of literals each) fast. oracle/rup_test.go
// cross-checks it against the definition executed the slow way.

// RUP is a clause database.
type RUP struct {
	n       int
	cls     [][]int
	occ     [][]int32 // occ[idx(l)] = ids of the clauses containing literal l
	val     []int8    // by variable: 0 unassigned, 1 true, -1 false
	nTrue   []int32
	nFalse  []int32
	trail   []int // literals made true, in order
	refuted bool  // unit propagation on the database alone reaches a conflict
}

func idx(l int) int {
	if l > 0 {
		return 2 * l
	}
	return -2*l + 1
}

// NewRUP creates a database over variables 1..n holding the given clauses.
func NewRUP(n int, cls [][]int) *RUP {
	r := &RUP{n: n, occ: make([][]int32, 2*n+2), val: make([]int8, n+1)}
	for _, c := range cls {
		r.Add(c)
	}
	return r
}

func normalise(c []int) (out []int, taut bool) {
	if len(c) <= 8 {
		for i, l := range c {
			dup := false
			for _, m := range c[:i] {
				if m == -l {
					return nil, true
				}
				if m == l {
					dup = true
				}
			}
			if !dup {
				out = append(out, l)
			}
		}
		return out, false
	}
	seen := make(map[int]bool, len(c))
	for _, l := range c {
		if seen[-l] {
			return nil, true
		}
		if !seen[l] {
			seen[l] = true
			out = append(out, l)
		}
	}
	return out, false
}

func (r *RUP) grow(n int) {
	for r.n < n {
		r.n++
		r.occ = append(r.occ, nil, nil)
		r.val = append(r.val, 0)
	}
}

func (r *RUP) value(l int) int8 {
	if l > 0 {
		return r.val[l]
	}
	return -r.val[-l]
}

// assign makes l true and updates the counters; it collects the literals that became
// forced and reports whether some clause became falsified. All counters are always
// updated, so that undo is exact.
func (r *RUP) assign(l int, forced *[]int) (conflict bool) {
	if l > 0 {
		r.val[l] = 1
	} else {
		r.val[-l] = -1
	}
	r.trail = append(r.trail, l)
	for _, id := range r.occ[idx(l)] {
		r.nTrue[id]++
	}
	for _, id := range r.occ[idx(-l)] {
		r.nFalse[id]++
		if r.nTrue[id] != 0 {
			continue
		}
		c := r.cls[id]
		switch int(r.nFalse[id]) {
		case len(c):
			conflict = true
		case len(c) - 1:
			for _, u := range c {
				if r.value(u) == 0 {
					*forced = append(*forced, u)
					break
				}
			}
		}
	}
	return conflict
}

func (r *RUP) undoTo(mark int) {
	for len(r.trail) > mark {
		l := r.trail[len(r.trail)-1]
		r.trail = r.trail[:len(r.trail)-1]
		for _, id := range r.occ[idx(l)] {
			r.nTrue[id]--
		}
		for _, id := range r.occ[idx(-l)] {
			r.nFalse[id]--
		}
		if l > 0 {
			r.val[l] = 0
		} else {
			r.val[-l] = 0
		}
	}
}

// propagate assigns the queued literals and everything they force; true on conflict.
func (r *RUP) propagate(queue []int) bool {
	for len(queue) > 0 {
		l := queue[0]
		queue = queue[1:]
		switch r.value(l) {
		case 1:
			continue
		case -1:
			return true
		}
		if r.assign(l, &queue) {
			return true
		}
	}
	return false
}

// Add appends a clause to the database (without checking it).
func (r *RUP) Add(c []int) {
	nc, taut := normalise(c)
	if taut || r.refuted {
		return
	}
	for _, l := range nc {
		v := l
		if v < 0 {
			v = -v
		}
		if v > r.n {
			r.grow(v)
		}
	}
	id := int32(len(r.cls))
	r.cls = append(r.cls, nc)
	var nt, nf int32
	unit := 0
	for _, l := range nc {
		r.occ[idx(l)] = append(r.occ[idx(l)], id)
		switch r.value(l) {
		case 1:
			nt++
		case -1:
			nf++
		default:
			unit = l
		}
	}
	r.nTrue = append(r.nTrue, nt)
	r.nFalse = append(r.nFalse, nf)
	if nt > 0 {
		return
	}
	switch int(nf) {
	case len(nc): // falsified by the facts (this includes the empty clause)
		r.refuted = true
	case len(nc) - 1: // a new fact
		if r.propagate([]int{unit}) {
			r.refuted = true
		}
	}
}

// Check reports whether clause c is RUP with respect to the current database.
func (r *RUP) Check(c []int) bool {
	if r.refuted {
		return true
	}
	nc, taut := normalise(c)
	if taut {
		return true // a tautology is trivially implied
	}
	for _, l := range nc {
		v := l
		if v < 0 {
			v = -v
		}
		if v > r.n {
			r.grow(v)
		}
	}
	mark := len(r.trail)
	defer r.undoTo(mark)
	var queue []int
	for _, l := range nc {
		switch r.value(l) {
		case 1:
			return true // l is a fact: asserting its negation conflicts at once
		case 0:
			queue = append(queue, -l)
		}
	}
	return r.propagate(queue)
}

// CheckTrace replays a whole trace: every line must be RUP w.r.t. the formula plus
// the earlier lines. It returns the index of the first line that is not, or -1,
// and whether the empty clause is RUP-derivable at the end.
func CheckTrace(n int, formula [][]int, lines [][]int) (badLine int, refuted bool) {
	r := NewRUP(n, formula)
	for i, c := range lines {
		if !r.Check(c) {
			return i, false
		}
		r.Add(c)
	}
	return -1, r.Check(nil)
}
