// Package oracle holds the reference implementations the checks compare
// gophersat against. It imports nothing from gophersat.
package oracle

import (
	"fmt"
	"sort"
)

// An assignment over variables 1..n is a bit mask: bit (v-1) set = variable v true.

// LitTrue reports whether literal l (DIMACS style, non-zero) is true under mask m.
func LitTrue(l int, m uint64) bool {
	if l > 0 {
		return m>>(uint(l)-1)&1 == 1
	}
	return m>>(uint(-l)-1)&1 == 0
}

// MaskOf converts a []bool model (index v-1) to a mask over the first n variables.
func MaskOf(model []bool) uint64 {
	var m uint64
	for i, b := range model {
		if b && i < 64 {
			m |= 1 << uint(i)
		}
	}
	return m
}

// ClauseTrue evaluates one clause as written (an empty clause is false).
func ClauseTrue(c []int, m uint64) bool {
	for _, l := range c {
		if LitTrue(l, m) {
			return true
		}
	}
	return false
}

// CNFTrue evaluates a clause list.
func CNFTrue(cls [][]int, m uint64) bool {
	for _, c := range cls {
		if !ClauseTrue(c, m) {
			return false
		}
	}
	return true
}

// MaxVar returns the highest variable mentioned.
func MaxVar(cls [][]int) int {
	mx := 0
	for _, c := range cls {
		for _, l := range c {
			if l < 0 {
				l = -l
			}
			if l > mx {
				mx = l
			}
		}
	}
	return mx
}

// Models enumerates all assignments over n variables satisfying pred (n <= 24).
func Models(n int, pred func(m uint64) bool) []uint64 {
	if n > 24 {
		panic("oracle.Models: n too large")
	}
	var res []uint64
	for m := uint64(0); m < 1<<uint(n); m++ {
		if pred(m) {
			res = append(res, m)
		}
	}
	return res
}

// Count counts the assignments over n variables satisfying pred.
func Count(n int, pred func(m uint64) bool) int {
	if n > 26 {
		panic("oracle.Count: n too large")
	}
	k := 0
	for m := uint64(0); m < 1<<uint(n); m++ {
		if pred(m) {
			k++
		}
	}
	return k
}

// AnyModel returns a satisfying assignment, if any, by enumeration.
func AnyModel(n int, pred func(m uint64) bool) (uint64, bool) {
	for m := uint64(0); m < 1<<uint(n); m++ {
		if pred(m) {
			return m, true
		}
	}
	return 0, false
}

// CNFSat decides satisfiability of a clause list over n variables by truth table.
func CNFSat(n int, cls [][]int) bool {
	_, ok := AnyModel(n, CNFPred(cls))
	return ok
}

// CNFPred compiles a clause list into a predicate over assignment masks
// (clause true iff some positive literal's bit is set or some negative literal's bit is clear).
func CNFPred(cls [][]int) func(m uint64) bool {
	pos := make([]uint64, len(cls))
	neg := make([]uint64, len(cls))
	for i, c := range cls {
		for _, l := range c {
			if l > 0 {
				pos[i] |= 1 << uint(l-1)
			} else {
				neg[i] |= 1 << uint(-l-1)
			}
		}
	}
	return func(m uint64) bool {
		for i := range pos {
			if m&pos[i] == 0 && ^m&neg[i] == 0 {
				return false
			}
		}
		return true
	}
}

// ModelSatisfies checks a []bool model (index v-1) against every clause as written.
// It returns the index of the first falsified clause, or -1.
func ModelSatisfies(cls [][]int, model []bool) int {
	for i, c := range cls {
		ok := false
		for _, l := range c {
			v := l
			if v < 0 {
				v = -v
			}
			if v-1 >= len(model) {
				continue
			}
			if (l > 0) == model[v-1] {
				ok = true
				break
			}
		}
		if !ok {
			return i
		}
	}
	return -1
}

// ---------------------------------------------------------------------------
// DPLL (unit propagation + chronological branching), for instances too large
// for a truth table. Independent of gophersat.

type dpll struct {
	cls    [][]int
	assign []int8 // index v; 0 unassigned, 1 true, -1 false
	occ    map[int][]int
	steps  int
	limit  int
}

func (d *dpll) val(l int) int8 {
	if l > 0 {
		return d.assign[l]
	}
	return -d.assign[-l]
}

// propagate runs unit propagation; returns false on conflict. trail receives assigned vars.
func (d *dpll) propagate(trail *[]int) bool {
	changed := true
	for changed {
		changed = false
		for _, c := range d.cls {
			d.steps++
			unassigned, last, sat := 0, 0, false
			for _, l := range c {
				switch d.val(l) {
				case 1:
					sat = true
				case 0:
					unassigned++
					last = l
				}
				if sat {
					break
				}
			}
			if sat {
				continue
			}
			if unassigned == 0 {
				return false
			}
			if unassigned == 1 {
				v := last
				if v < 0 {
					v = -v
				}
				if last > 0 {
					d.assign[v] = 1
				} else {
					d.assign[v] = -1
				}
				*trail = append(*trail, v)
				changed = true
			}
		}
	}
	return true
}

func (d *dpll) solve() (bool, bool) {
	if d.limit > 0 && d.steps > d.limit {
		return false, false
	}
	var trail []int
	undo := func() {
		for _, v := range trail {
			d.assign[v] = 0
		}
	}
	if !d.propagate(&trail) {
		undo()
		return false, true
	}
	// pick the first unassigned variable of the shortest unsatisfied clause
	best, bestLen := 0, 1<<30
	for _, c := range d.cls {
		sat, un, first := false, 0, 0
		for _, l := range c {
			switch d.val(l) {
			case 1:
				sat = true
			case 0:
				un++
				if first == 0 {
					first = l
				}
			}
		}
		if !sat && un < bestLen {
			bestLen, best = un, first
		}
	}
	if best == 0 {
		return true, true // every clause satisfied (model kept in d.assign)
	}
	v := best
	if v < 0 {
		v = -v
	}
	for _, s := range []int8{1, -1} {
		if best < 0 {
			s = -s
		}
		d.assign[v] = s
		ok, done := d.solve()
		if !done {
			d.assign[v] = 0
			undo()
			return false, false
		}
		if ok {
			return true, true
		}
		d.assign[v] = 0
	}
	undo()
	return false, true
}

// DPLL decides satisfiability. done=false means the step limit was hit (limit<=0: none).
func DPLL(n int, cls [][]int, limit int) (sat bool, model []bool, done bool) {
	for _, c := range cls {
		if len(c) == 0 {
			return false, nil, true
		}
	}
	d := &dpll{cls: cls, assign: make([]int8, n+1), limit: limit}
	sat, done = d.solve()
	if sat {
		model = make([]bool, n)
		for v := 1; v <= n; v++ {
			model[v-1] = d.assign[v] == 1
		}
	}
	return sat, model, done
}

// Entails decides cls |= clause via DPLL on cls AND NOT clause.
func Entails(n int, cls [][]int, clause []int, limit int) (bool, bool) {
	ext := make([][]int, 0, len(cls)+len(clause))
	ext = append(ext, cls...)
	for _, l := range clause {
		ext = append(ext, []int{-l})
	}
	sat, _, done := DPLL(n, ext, limit)
	return !sat, done
}

// ---------------------------------------------------------------------------
// clause normal forms for comparisons

// SortedCopy returns a sorted copy of a literal sequence (multiset key).
func SortedCopy(c []int) []int {
	d := append([]int(nil), c...)
	sort.Ints(d)
	return d
}

// Key is a canonical string for a clause as a multiset of literals.
func Key(c []int) string { return fmt.Sprint(SortedCopy(c)) }

// SubMultiset reports whether every clause of sub occurs in sup at least as often
// (clauses compared as literal multisets).
func SubMultiset(sub, sup [][]int) bool {
	cnt := map[string]int{}
	for _, c := range sup {
		cnt[Key(c)]++
	}
	for _, c := range sub {
		k := Key(c)
		if cnt[k] == 0 {
			return false
		}
		cnt[k]--
	}
	return true
}

// CloneCNF deep-copies a clause list.
func CloneCNF(cls [][]int) [][]int {
	out := make([][]int, len(cls))
	for i, c := range cls {
		out[i] = append([]int{}, c...)
	}
	return out
}
