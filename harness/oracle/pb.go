package oracle

import "fmt"

// Constr is a linear constraint exactly as a caller wrote it:
// sum Coefs[i]*[Lits[i] true]  Rel  K, with Rel one of ">=", "<=", "=".
// Coefs == nil means all coefficients are 1.
type Constr struct {
	Lits  []int  `json:"lits"`
	Coefs []int  `json:"coefs,omitempty"`
	Rel   string `json:"rel"`
	K     int    `json:"k"`
}

func (c Constr) String() string {
	s := ""
	for i, l := range c.Lits {
		w := 1
		if c.Coefs != nil {
			w = c.Coefs[i]
		}
		s += fmt.Sprintf("%+d*[%d] ", w, l)
	}
	return fmt.Sprintf("%s%s %d", s, c.Rel, c.K)
}

// Sum is the left-hand side under assignment m.
func (c Constr) Sum(m uint64) int {
	s := 0
	for i, l := range c.Lits {
		if LitTrue(l, m) {
			if c.Coefs == nil {
				s++
			} else {
				s += c.Coefs[i]
			}
		}
	}
	return s
}

// True evaluates the constraint with integer arithmetic.
func (c Constr) True(m uint64) bool {
	s := c.Sum(m)
	switch c.Rel {
	case ">=":
		return s >= c.K
	case "<=":
		return s <= c.K
	case "=":
		return s == c.K
	}
	panic("oracle: bad relation " + c.Rel)
}

// Clause makes the constraint form of a propositional clause.
func Clause(lits ...int) Constr { return Constr{Lits: append([]int{}, lits...), Rel: ">=", K: 1} }

// AllTrue evaluates a conjunction.
func AllTrue(cs []Constr, m uint64) bool {
	for _, c := range cs {
		if !c.True(m) {
			return false
		}
	}
	return true
}

// FirstFalse returns the index of the first constraint false under m, or -1.
func FirstFalse(cs []Constr, m uint64) int {
	for i, c := range cs {
		if !c.True(m) {
			return i
		}
	}
	return -1
}

// MaxVarConstrs returns the highest variable mentioned.
func MaxVarConstrs(cs []Constr) int {
	mx := 0
	for _, c := range cs {
		for _, l := range c.Lits {
			if l < 0 {
				l = -l
			}
			if l > mx {
				mx = l
			}
		}
	}
	return mx
}

// Cost is a linear objective: sum W[i]*[Lits[i] true]. W == nil means all ones.
type Cost struct {
	Lits []int `json:"lits"`
	W    []int `json:"w,omitempty"`
}

// Of evaluates the objective under m.
func (c Cost) Of(m uint64) int {
	s := 0
	for i, l := range c.Lits {
		if LitTrue(l, m) {
			if c.W == nil {
				s++
			} else {
				s += c.W[i]
			}
		}
	}
	return s
}

// Minimum returns the minimum of cost over the assignments of n variables satisfying
// pred, and whether any exists; also the number of distinct feasible cost values.
func Minimum(n int, pred func(uint64) bool, cost func(uint64) int) (best int, feasible bool, distinct int) {
	seen := map[int]bool{}
	for m := uint64(0); m < 1<<uint(n); m++ {
		if !pred(m) {
			continue
		}
		c := cost(m)
		seen[c] = true
		if !feasible || c < best {
			best, feasible = c, true
		}
	}
	return best, feasible, len(seen)
}

// CloneConstrs deep-copies constraints.
func CloneConstrs(cs []Constr) []Constr {
	out := make([]Constr, len(cs))
	for i, c := range cs {
		out[i] = Constr{Lits: append([]int{}, c.Lits...), Rel: c.Rel, K: c.K}
		if c.Coefs != nil {
			out[i].Coefs = append([]int{}, c.Coefs...)
		}
	}
	return out
}
