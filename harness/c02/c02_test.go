//go:build verif

// C02 — cardinality and pseudo-boolean constraints are decided correctly.
package c02

import (
	"fmt"
	"testing"

	"github.com/crillab/gophersat/solver"
	"pgregory.net/rapid"
	"verifharness/gen"
	"verifharness/gs"
	"verifharness/oracle"
	"verifharness/vf"
)

type Case struct {
	Front   string   `json:"front"` // pb | card
	Constrs []gen.PC `json:"constrs"`
	NbMax   int      `json:"nbmax,omitempty"`
	CP      bool     `json:"cp,omitempty"` // solved with the cutting-planes strategy
}

func check(c Case, o *vf.Obs) error {
	sems := gen.Sems(c.Constrs)
	n := oracle.MaxVarConstrs(sems)
	gs.Arm(c.NbMax, gs.DefaultStepLimit)
	defer gs.Arm(0, 0)
	o.Class("front-" + c.Front)
	for _, p := range c.Constrs {
		o.Class("kind-" + p.Kind)
	}
	var pb *solver.Problem
	if c.Front == "pb" {
		pb = solver.ParsePBConstrs(gs.PBConstrsOf(c.Constrs))
	} else {
		pb = solver.ParseCardConstrs(gs.CardConstrsOf(c.Constrs))
	}
	parseStatus := pb.Status
	nonClausal := false
	for _, cl := range pb.Clauses {
		if cl.Cardinality() > 1 {
			nonClausal = true
		}
	}
	o.ClassIf(len(pb.Units) > 0, "parse-units")
	o.ClassIf(parseStatus != solver.Indet, "parse-decided")
	o.ClassIf(nonClausal, "non-clausal-survives")
	s := solver.New(pb)
	s.CuttingPlanes = c.CP
	o.ClassIf(c.CP, "cutting-planes")
	res, err := gs.Solve(s, false, false)
	if err != nil {
		return err
	}
	o.ClassIf(res.Stats.NbConflicts > 0, "conflicts>0")
	o.ClassIf(res.Stats.NbDecisions > 0, "decisions>0")
	if nonClausal && res.Stats.NbDecisions > 0 {
		o.Nontrivial()
	}
	if res.Status != solver.Sat && res.Status != solver.Unsat {
		return fmt.Errorf("Solve returned %v", res.Status)
	}
	pred := func(m uint64) bool { return oracle.AllTrue(sems, m) }
	_, truth := oracle.AnyModel(n, pred)
	o.ClassIf(truth, "sat")
	o.ClassIf(!truth, "unsat")
	if truth != (res.Status == solver.Sat) {
		return fmt.Errorf("verdict %v but satisfiable=%v (parse status %v)", res.Status, truth, parseStatus)
	}
	if parseStatus == solver.Sat && !truth || parseStatus == solver.Unsat && truth {
		return fmt.Errorf("Problem.Status after parsing is %v but satisfiable=%v", parseStatus, truth)
	}
	if res.Status == solver.Sat {
		// variables the front-end never counted (they occur in trivially true constraints only) are free
		m := oracle.MaskOf(res.Model)
		if len(res.Model) > n {
			return fmt.Errorf("model has %d values but the highest variable is %d", len(res.Model), n)
		}
		if i := oracle.FirstFalse(sems, m); i >= 0 {
			return fmt.Errorf("model %v violates constraint #%d: %v", res.Model, i, sems[i])
		}
	}
	return nil
}

// genStructured: instances whose constraints really conflict (pigeonhole with at-most-one rows, dense
// systems of tight constraints), so that propagation over several levels, conflicts and learning happen
// on cardinality / PB constraints.
func genStructured(front string) func(t *rapid.T) Case {
	return func(t *rapid.T) Case {
		c := Case{Front: front}
		if gen.Chance(t, 1, 3, "longCard") {
			// long constraints with a small degree and unit constraints: the watched prefix is a small part
			// of each constraint, and literals of the tail are falsified level after level
			n := gen.Uniform(t, 10, 14, "n")
			for i, m := 0, gen.Uniform(t, 2, 6, "m"); i < m; i++ {
				ls := gen.DistinctLits(t, n, gen.Uniform(t, 7, n, "len"), "l")
				k := gen.Uniform(t, 2, 4, "k")
				if front == "card" {
					c.Constrs = append(c.Constrs, gen.PC{Kind: "atleast", Lits: ls, K: k})
				} else {
					co := make([]int, len(ls))
					for j := range co {
						co[j] = rapid.IntRange(1, 3).Draw(t, "co")
					}
					c.Constrs = append(c.Constrs, gen.PC{Kind: "gteq", Lits: ls, Coefs: co, K: k + 1})
				}
			}
			for i, m := 0, rapid.IntRange(0, 4).Draw(t, "units"); i < m; i++ {
				l := gen.Lit(t, n, "u")
				if front == "card" {
					c.Constrs = append(c.Constrs, gen.PC{Kind: "atleast", Lits: []int{l}, K: 1})
				} else {
					c.Constrs = append(c.Constrs, gen.PC{Kind: "gteq", Lits: []int{l}, Coefs: []int{1}, K: 1})
				}
			}
			for i, m := 0, rapid.IntRange(0, 6).Draw(t, "short"); i < m; i++ {
				c.Constrs = append(c.Constrs, gen.PC{Kind: "clause", Lits: gen.DistinctLits(t, n, gen.Uniform(t, 2, 3, "clen"), "c")})
			}
			c.Constrs = rapid.Permutation(c.Constrs).Draw(t, "order")
		} else if rapid.Bool().Draw(t, "php") {
			holes := rapid.IntRange(2, 3).Draw(t, "holes")
			pigeons := holes + 1
			if gen.Chance(t, 1, 3, "drop") {
				pigeons = holes
			}
			n := pigeons * holes
			perm := rapid.Permutation(seqInts(1, n)).Draw(t, "perm")
			v := func(p, h int) int { return perm[p*holes+h] }
			for p := 0; p < pigeons; p++ {
				var ls []int
				for h := 0; h < holes; h++ {
					ls = append(ls, v(p, h))
				}
				c.Constrs = append(c.Constrs, gen.PC{Kind: "clause", Lits: ls})
			}
			for h := 0; h < holes; h++ {
				var ls []int
				for p := 0; p < pigeons; p++ {
					ls = append(ls, v(p, h))
				}
				if front == "card" {
					c.Constrs = append(c.Constrs, gen.PC{Kind: "atmost1", Lits: ls})
				} else {
					c.Constrs = append(c.Constrs, gen.PC{Kind: "atmost", Lits: ls, K: 1})
				}
			}
			c.Constrs = rapid.Permutation(c.Constrs).Draw(t, "order")
		} else {
			n := gen.Uniform(t, 6, 10, "n")
			for i, m := 0, gen.Uniform(t, 6, 14, "m"); i < m; i++ {
				c.Constrs = append(c.Constrs, gen.PBConstr(t, n, gen.PBOpts{MaxArity: 5, Card: front == "card"}, false))
			}
		}
		if gen.Chance(t, 1, 2, "nbmax") {
			c.NbMax = rapid.IntRange(2, 12).Draw(t, "limit")
		}
		c.CP = gen.Chance(t, 1, 5, "cuttingPlanes")
		return c
	}
}

// genKnapsack: many tight rows with coefficients 1..9 over 5..9 of 8..12 variables: the watched part of a
// constraint is recomputed again and again with weights that do not add up evenly, and conflicts, backjumps
// and learning happen on weighted constraints (about five conflicts per instance).
func genKnapsack(t *rapid.T) Case {
	c := Case{Front: "pb"}
	n := gen.Uniform(t, 8, 12, "n")
	for i, m := 0, gen.Uniform(t, n, 2*n, "m"); i < m; i++ {
		k := gen.Uniform(t, 5, 9, "len")
		if k > n {
			k = n
		}
		ls := gen.DistinctLits(t, n, k, "l")
		co := make([]int, k)
		tot := 0
		for j := range co {
			co[j] = gen.Uniform(t, 1, 9, "co")
			tot += co[j]
		}
		d := tot * gen.Uniform(t, 25, 55, "pct") / 100
		if d < 1 {
			d = 1
		}
		if gen.Chance(t, 1, 4, "lteq") {
			c.Constrs = append(c.Constrs, gen.PC{Kind: "lteq", Lits: ls, Coefs: co, K: tot - d})
		} else {
			c.Constrs = append(c.Constrs, gen.PC{Kind: "gteq", Lits: ls, Coefs: co, K: d})
		}
	}
	if gen.Chance(t, 1, 3, "nbmax") {
		c.NbMax = rapid.IntRange(2, 12).Draw(t, "limit")
	}
	c.CP = gen.Chance(t, 1, 5, "cuttingPlanes")
	return c
}

func genCardFan(t *rapid.T) Case {
	_, ps := gen.CardFan(t)
	c := Case{Front: "card", Constrs: ps}
	if rapid.Bool().Draw(t, "asPB") {
		c.Front = "pb"
	}
	c.CP = gen.Chance(t, 1, 5, "cuttingPlanes")
	return c
}

func seqInts(lo, hi int) []int {
	var s []int
	for i := lo; i <= hi; i++ {
		s = append(s, i)
	}
	return s
}

func genCase(front string) func(t *rapid.T) Case {
	return func(t *rapid.T) Case {
		_, ps := gen.PBConstrs(t, gen.PBOpts{MinN: 1, MaxN: 10, MaxConstrs: 8, MaxArity: 8, Card: front == "card"})
		c := Case{Front: front, Constrs: ps}
		if gen.Chance(t, 1, 3, "nbmax") {
			c.NbMax = rapid.IntRange(2, 12).Draw(t, "limit")
		}
		c.CP = gen.Chance(t, 1, 5, "cuttingPlanes")
		return c
	}
}

func init() {
	rule := "n in 1..10, 1..8 constraints over distinct variables, arity 1..8, coefficients in [-W,W] (W in 1,4,9, zero included), degree from below the minimum to above the maximum of the left-hand side, relations >=,<=,=, unit constraints mixed in; a fifth of the cases are solved with the cutting-planes strategy; oracle = integer arithmetic over all 2^n assignments on the constraints as written; non-trivial = a non-clausal constraint survives parsing and >=1 decision"
	vf.Register(
		vf.Sub[Case]{Name: "pb-front", Quick: 20000, Thorough: 125000, Gen: genCase("pb"), Check: check, Floor: 0.2,
			Rule: "ParsePBConstrs via GtEq/LtEq/Eq/AtLeast/AtMost/PropClause; " + rule},
		vf.Sub[Case]{Name: "card-front", Quick: 20000, Thorough: 125000, Gen: genCase("card"), Check: check, Floor: 0.2,
			Rule: "ParseCardConstrs via CardConstr/AtLeast1/AtMost1/Exactly1; " + rule},
		vf.Sub[Case]{Name: "pb-structured", Quick: 4000, Thorough: 50000, Gen: genStructured("pb"), Check: check, Floor: 0.5,
			Classes: map[string]float64{"conflicts>0": 0.2},
			Rule:    "ParsePBConstrs: pigeonhole with at-most-one rows (variables renamed, constraints shuffled) dense systems of 6..14 loose-degree constraints over 6..10 variables, and long constraints (7..14 literals, degree 2..5) with unit constraints and short clauses over 10..14 variables, tiny learned-clause limit in half of the cases; " + rule},
		vf.Sub[Case]{Name: "pb-knapsack", Quick: 8000, Thorough: 80000, Gen: genKnapsack, Check: check, Floor: 0.8,
			Classes: map[string]float64{"conflicts>0": 0.5, "sat": 0.3, "unsat": 0.1},
			Rule:    "ParsePBConstrs: n..2n tight rows (>= with degree 25..55 % of the sum of the coefficients, or the equivalent <=) with coefficients 1..9 over 5..9 of n = 8..12 variables, tiny learned-clause limit in a third of the cases; same oracle; non-trivial as above"},
		vf.Sub[Case]{Name: "card-fan", Quick: 4000, Thorough: 50000, Gen: genCardFan, Check: check, Floor: 0.5,
			Rule: "one or two cardinality constraints 'at least 3..4 of 6..9 literals' over 9..13 variables with fans of binary clauses whose trigger variable falsifies several watched literals of a constraint at once (gen.CardFan), through either front-end; same oracle; non-trivial as above"},
		vf.Sub[Case]{Name: "card-structured", Quick: 4000, Thorough: 50000, Gen: genStructured("card"), Check: check, Floor: 0.5,
			Classes: map[string]float64{"conflicts>0": 0.2},
			Rule:    "ParseCardConstrs: the same structured families; " + rule},
	)
}

func TestMain(m *testing.M)   { vf.Main(m, "C02") }
func TestCorpus(t *testing.T) { vf.Corpus(t) }
func TestProp(t *testing.T)   { vf.RunAll(t) }
func TestReplay(t *testing.T) { vf.ReplayEnv(t) }

// native fuzz targets (thorough tier): the fuzzer mutates the byte stream that rapid decodes into generator choices
func FuzzPBFront(f *testing.F)    { vf.FuzzNamed(f, "C02", "pb-front") }
func FuzzPBKnapsack(f *testing.F) { vf.FuzzNamed(f, "C02", "pb-knapsack") }
