//go:build verif

// C05 — model counting and enumeration are exact.
package c05

import (
	"fmt"
	"sort"
	"testing"

	"github.com/crillab/gophersat/solver"
	"pgregory.net/rapid"
	"verifharness/gen"
	"verifharness/gs"
	"verifharness/oracle"
	"verifharness/vf"
)

type Case struct {
	Front   string   `json:"front"` // slicenb | cnf | card | pb
	N       int      `json:"n,omitempty"`
	Clauses [][]int  `json:"clauses,omitempty"`
	Constrs []gen.PC `json:"constrs,omitempty"`
	CP      bool     `json:"cp,omitempty"` // every solver of the case runs with the cutting-planes strategy (decision 22)
}

// newSolver builds a solver with the case's options.
func newSolver(c Case, pb *solver.Problem) *solver.Solver {
	s := solver.New(pb)
	s.CuttingPlanes = c.CP
	return s
}

func withCP(g func(*rapid.T) Case) func(*rapid.T) Case {
	return func(t *rapid.T) Case {
		c := g(t)
		c.CP = gen.Chance(t, 1, 4, "cuttingPlanes")
		return c
	}
}

func build(c Case) (*solver.Problem, error) {
	switch c.Front {
	case "slicenb", "cnf":
		return gs.ParseCNFProblem(c.Front, c.N, c.Clauses)
	case "card":
		return solver.ParseCardConstrs(gs.CardConstrsOf(c.Constrs)), nil
	case "pb":
		return solver.ParsePBConstrs(gs.PBConstrsOf(c.Constrs)), nil
	}
	panic("bad front")
}

func check(c Case, o *vf.Obs) error {
	gs.Arm(0, gs.DefaultStepLimit)
	defer gs.Arm(0, 0)
	o.Class("front-" + c.Front)
	var pred func(uint64) bool
	if c.Front == "slicenb" || c.Front == "cnf" {
		pred = oracle.CNFPred(c.Clauses)
		o.ClassIf(len(c.Clauses) == 0, "no-constraint")
		_, _, _, taut := gen.Shapes(c.Clauses)
		o.ClassIf(taut, "has-tautology")
		o.ClassIf(oracle.MaxVar(c.Clauses) < c.N, "unused-declared-var")
	} else {
		sems := gen.Sems(c.Constrs)
		pred = func(m uint64) bool { return oracle.AllTrue(sems, m) }
	}
	pb, err := build(c)
	if err != nil {
		return fmt.Errorf("parse error: %v", err)
	}
	n := pb.NbVars
	if c.Front == "slicenb" || c.Front == "cnf" {
		if pb.Status != solver.Unsat && n != c.N {
			return fmt.Errorf("problem has %d variables, %d declared", n, c.N)
		}
		n = c.N
	}
	if n > 16 {
		return fmt.Errorf("%w: n too large", vf.ErrInconclusive)
	}
	truthSet := oracle.Models(n, pred)
	truth := len(truthSet)
	o.ClassIf(pb.Status != solver.Indet, "parse-decided")
	o.ClassIf(truth == 0, "unsat")
	o.ClassIf(truth == 1, "one-model")
	o.ClassIf(truth == 1<<uint(n), "all-assignments")
	o.ClassIf(truth >= 2, "models>=2")
	o.ClassIf(truth >= 16, "models>=16")

	// 1. CountModels
	o.ClassIf(c.CP, "cutting-planes")
	s1 := newSolver(c, pb)
	got := s1.CountModels()
	if got != truth {
		return fmt.Errorf("CountModels = %d, the problem has %d models over %d variables", got, truth, n)
	}
	o.ClassIf(s1.Stats.NbConflicts > 0, "conflicts>0")
	if truth >= 2 && pb.Status == solver.Indet && s1.Stats.NbDecisions >= 2 {
		o.Nontrivial()
	}
	// 1b. CountModels on a solver that has already solved the problem
	pb1b, _ := build(c)
	s1b := newSolver(c, pb1b)
	s1b.Solve()
	if got := s1b.CountModels(); got != truth {
		return fmt.Errorf("Solve then CountModels on the same solver = %d, the problem has %d models", got, truth)
	}
	// 2. Enumerate(nil, nil) on a fresh solver
	pb2, _ := build(c)
	if got := newSolver(c, pb2).Enumerate(nil, nil); got != truth {
		return fmt.Errorf("Enumerate(nil) = %d, the problem has %d models", got, truth)
	}
	// 3. Enumerate(chan, nil): consumer in a goroutine, producer here (so a panic is recoverable)
	pb3, _ := build(c)
	s3 := newSolver(c, pb3)
	ch := make(chan []bool)
	var delivered [][]bool
	done := make(chan struct{})
	go func() {
		for m := range ch {
			delivered = append(delivered, m)
		}
		close(done)
	}()
	ret := -1
	perr := vf.Safely(func() error { ret = s3.Enumerate(ch, nil); return nil })
	if perr != nil {
		// Enumerate defers close(ch); if it did not, the consumer would block for ever: close defensively
		func() { defer func() { recover() }(); close(ch) }()
		<-done
		return perr
	}
	select {
	case <-done:
	default:
		// Enumerate returned: the channel must be closed by now; wait for the consumer to see it
		<-done
	}
	if ret != truth {
		return fmt.Errorf("Enumerate(chan) returned %d, the problem has %d models", ret, truth)
	}
	if len(delivered) != truth {
		return fmt.Errorf("Enumerate(chan) delivered %d models, the problem has %d", len(delivered), truth)
	}
	gotMasks := make([]uint64, 0, len(delivered))
	for _, m := range delivered {
		if len(m) != n {
			return fmt.Errorf("delivered model has %d values, %d variables declared", len(m), n)
		}
		gotMasks = append(gotMasks, oracle.MaskOf(m))
	}
	sort.Slice(gotMasks, func(i, j int) bool { return gotMasks[i] < gotMasks[j] })
	for i := range gotMasks {
		if gotMasks[i] != truthSet[i] {
			if i > 0 && gotMasks[i] == gotMasks[i-1] {
				return fmt.Errorf("model %0*b delivered twice", n, gotMasks[i])
			}
			return fmt.Errorf("delivered models differ from the true model set at position %d: got %0*b want %0*b", i, n, gotMasks[i], n, truthSet[i])
		}
	}
	return nil
}

func genCNF(t *rapid.T) Case {
	c := Case{Front: rapid.SampledFrom([]string{"slicenb", "cnf"}).Draw(t, "front")}
	switch rapid.IntRange(0, 11).Draw(t, "shape") {
	case 0: // no constraint at all
		c.N = gen.Uniform(t, 1, 10, "n")
	case 1: // tautologies only
		c.N = gen.Uniform(t, 1, 8, "n")
		for i, k := 0, rapid.IntRange(1, 4).Draw(t, "k"); i < k; i++ {
			v := gen.Uniform(t, 1, c.N, "v")
			cl := []int{v, -v}
			if c.N > 1 && rapid.Bool().Draw(t, "more") {
				cl = append(cl, gen.Lit(t, c.N, "x"))
			}
			c.Clauses = append(c.Clauses, cl)
		}
	case 2: // fully decided by unit clauses
		c.N = gen.Uniform(t, 1, 8, "n")
		for v := 1; v <= c.N; v++ {
			if rapid.Bool().Draw(t, "neg") {
				c.Clauses = append(c.Clauses, []int{-v})
			} else {
				c.Clauses = append(c.Clauses, []int{v})
			}
		}
	case 3: // deep parse-time propagation, partly decided
		c.N, c.Clauses = gen.PropagationChain(t, 2, 10)
	default: // sparse formulas: many models, several rounds of blocking
		c.N, c.Clauses = gen.SmallCNF(t, gen.CNFOpts{MinN: 1, MaxN: 10, MaxRatio: 2, MaxLen: 4, AllowEmpty: true, AllowDup: true, AllowUnit: true, UnusedVarSlack: true})
	}
	return c
}

// genHardCNF: under-constrained 3-SAT / parity systems at n = 12..18: dozens to thousands of models and
// real conflicts, so that blocking clauses, learned clauses and learned units interact.
func genHardCNF(t *rapid.T) Case {
	c := Case{Front: rapid.SampledFrom([]string{"slicenb", "cnf"}).Draw(t, "front")}
	if rapid.Bool().Draw(t, "xor") {
		c.N = gen.Uniform(t, 12, 18, "n")
		c.Clauses = gen.XorCNF(t, c.N, gen.Uniform(t, c.N-9, c.N-3, "m"))
	} else {
		c.N = gen.Uniform(t, 12, 18, "n")
		c.Clauses = gen.KSAT(t, c.N, c.N*gen.Uniform(t, 30, 42, "ratio")/10, 3)
	}
	return c
}

// GuardedCase: a pigeonhole formula guarded by g (g -> PHP, and not g -> every pigeonhole variable false), e free
// extra variables and one unit clause u: exactly 2^e models by construction (g false, PHP variables false, u true),
// but the counter has to refute PHP under g = true: hundreds of conflicts, restarts and clause-database
// reductions happen *during* the enumeration, after models have been found and blocked.
type GuardedCase struct {
	Holes int  `json:"holes"`
	Extra int  `json:"extra"`
	NbMax int  `json:"nbmax,omitempty"`
	Chan  bool `json:"chan"`
}

func checkGuarded(c GuardedCase, o *vf.Obs) error {
	gs.Arm(c.NbMax, 80_000_000)
	defer gs.Arm(0, 0)
	holes, pigeons := c.Holes, c.Holes+1
	np := pigeons * holes
	g, u := np+1, np+2
	n := np + 2 + c.Extra
	v := func(p, h int) int { return p*holes + h + 1 }
	var cls [][]int
	for p := 0; p < pigeons; p++ {
		cl := []int{-g}
		for h := 0; h < holes; h++ {
			cl = append(cl, v(p, h))
		}
		cls = append(cls, cl)
	}
	for h := 0; h < holes; h++ {
		for p := 0; p < pigeons; p++ {
			for q := p + 1; q < pigeons; q++ {
				cls = append(cls, []int{-g, -v(p, h), -v(q, h)})
			}
		}
	}
	for x := 1; x <= np; x++ {
		cls = append(cls, []int{g, -x})
	}
	cls = append(cls, []int{u})
	want := 1 << uint(c.Extra)
	s := solver.New(solver.ParseSliceNb(oracle.CloneCNF(cls), n))
	got := -1
	var delivered [][]bool
	if c.Chan {
		ch := make(chan []bool, 4)
		done := make(chan struct{})
		go func() {
			for m := range ch {
				delivered = append(delivered, m)
			}
			close(done)
		}()
		perr := vf.Safely(func() error { got = s.Enumerate(ch, nil); return nil })
		if perr != nil {
			func() { defer func() { recover() }(); close(ch) }()
			<-done
			return perr
		}
		<-done
	} else {
		got = s.CountModels()
	}
	o.ClassIf(s.Stats.NbRestarts > 0, "restart>0")
	o.ClassIf(s.Stats.NbDeleted > 0, "reduceDB>0")
	o.ClassIf(s.Stats.NbConflicts >= 100, "conflicts>=100")
	if s.Stats.NbConflicts >= 100 {
		o.Nontrivial()
	}
	if got != want {
		return fmt.Errorf("count = %d, the guarded pigeonhole formula (%d holes, %d free variables) has exactly %d models", got, holes, c.Extra, want)
	}
	if c.Chan {
		seen := map[uint64]bool{}
		for _, m := range delivered {
			if i := oracle.ModelSatisfies(cls, m); i >= 0 {
				return fmt.Errorf("a delivered assignment falsifies clause %v", cls[i])
			}
			var key uint64
			for e := 0; e < c.Extra; e++ {
				if m[np+2+e] {
					key |= 1 << uint(e)
				}
			}
			if seen[key] {
				return fmt.Errorf("the same model was delivered twice")
			}
			seen[key] = true
		}
		if len(delivered) != want {
			return fmt.Errorf("%d models delivered, %d expected", len(delivered), want)
		}
	}
	return nil
}

func genGuarded(t *rapid.T) GuardedCase {
	c := GuardedCase{Holes: rapid.SampledFrom([]int{5, 6, 6}).Draw(t, "holes"), Extra: rapid.IntRange(0, 3).Draw(t, "extra"), Chan: rapid.Bool().Draw(t, "chan")}
	if rapid.Bool().Draw(t, "low") {
		c.NbMax = rapid.IntRange(30, 300).Draw(t, "limit")
	}
	return c
}

func genCardFan(t *rapid.T) Case {
	_, ps := gen.CardFan(t)
	return Case{Front: "card", Constrs: ps}
}

func genPB(front string) func(t *rapid.T) Case {
	return func(t *rapid.T) Case {
		_, ps := gen.PBConstrs(t, gen.PBOpts{MinN: 1, MaxN: 8, MaxConstrs: 4, MaxArity: 6, Card: front == "card"})
		return Case{Front: front, Constrs: ps}
	}
}

func init() {
	tail := "; oracle = truth-table model set over the declared variables; CountModels, Enumerate(nil) and Enumerate(chan) each on a fresh solver, and CountModels on a solver that has already solved the problem; delivered models compared as a multiset; non-trivial = >=2 models, not decided at parse time, >=2 decisions"
	vf.Register(
		vf.Sub[Case]{Name: "cnf", Quick: 15000, Thorough: 100000, Gen: genCNF, Check: check, Floor: 0.2,
			Rule: "CNF over n<=10 declared variables via ParseSliceNb/ParseCNF: no constraint, tautologies only, fully decided by units, sparse random formulas with odd clause shapes and unused variables" + tail},
		vf.Sub[Case]{Name: "cnf-conflict-rich", Quick: 400, Thorough: 5000, Gen: genHardCNF, Check: check, Floor: 0.4,
			Classes: map[string]float64{"conflicts>0": 0.35, "models>=16": 0.25},
			Rule:    "3-SAT at ratio 3.0..4.2 and parity systems with n-9..n-3 constraints, n in 12..18: many models and real conflicts during enumeration" + tail},
		vf.Sub[GuardedCase]{Name: "guarded-pigeonhole", Quick: 16, Thorough: 200, Gen: genGuarded, Check: checkGuarded, Floor: 0,
			Rule: "pigeonhole PHP(6,5)/PHP(7,6) guarded by a variable g (g -> PHP, not g -> all pigeonhole variables false), one unit clause and 0..3 free variables: exactly 2^e models by construction; CountModels or Enumerate(chan) must refute PHP under g = true in the middle of the enumeration (hundreds of conflicts, restarts, reductions with a lowered limit); non-trivial = >=100 conflicts"},
		vf.Sub[Case]{Name: "card-fan", Quick: 4000, Thorough: 40000, Gen: withCP(genCardFan), Check: check, Floor: 0.5,
			Rule: "ParseCardConstrs: one or two cardinality constraints 'at least 3..4 of 6..9 literals' over 9..13 variables, a trigger variable whose binary clauses falsify 2..K+1 of the first K+1 literals of a constraint at once (in position order, reverse order or shuffled), a second one that makes spare literals true, 0..4 loose binary clauses" + tail},
		vf.Sub[Case]{Name: "card", Quick: 8000, Thorough: 50000, Gen: withCP(genPB("card")), Check: check, Floor: 0.15,
			Rule: "cardinality constraints (n<=8, <=4 constraints) via ParseCardConstrs" + tail},
		vf.Sub[Case]{Name: "pb", Quick: 8000, Thorough: 50000, Gen: withCP(genPB("pb")), Check: check, Floor: 0.15,
			Rule: "PB constraints (n<=8, <=4 constraints, coefficients of either sign) via ParsePBConstrs; a quarter of the card-fan / card / pb cases under the cutting-planes strategy" + tail},
	)
}

func TestMain(m *testing.M)   { vf.Main(m, "C05") }
func TestCorpus(t *testing.T) { vf.Corpus(t) }
func TestProp(t *testing.T)   { vf.RunAll(t) }
func TestReplay(t *testing.T) { vf.ReplayEnv(t) }

// native fuzz targets (thorough tier): the fuzzer mutates the byte stream that rapid decodes into generator choices
func FuzzCountCNF(f *testing.F) { vf.FuzzNamed(f, "C05", "cnf") }
func FuzzCountPB(f *testing.F)  { vf.FuzzNamed(f, "C05", "pb") }
