//go:build verif

// C01 — CNF satisfiability verdicts and models are correct.
package c01

import (
	"fmt"
	"sync"
	"testing"

	"github.com/crillab/gophersat/solver"
	"pgregory.net/rapid"
	"verifharness/gen"
	"verifharness/gs"
	"verifharness/oracle"
	"verifharness/vf"
)

// Case is one CNF problem plus a solver configuration.
type Case struct {
	N       int     `json:"n"`       // declared variable count
	Clauses [][]int `json:"clauses"` // as written
	Entry   string  `json:"entry"`   // slice | slicenb | cnf
	Cert    bool    `json:"cert"`    // certificate generation on
	NbMax   int     `json:"nbmax"`   // lowered learned-clause limit (0 = default)
	Family  string  `json:"family,omitempty"`
	CP      bool    `json:"cp,omitempty"`    // solved with the cutting-planes strategy (never together with Cert)
	Known   string  `json:"known,omitempty"` // "sat" / "unsat": verdict known by construction (formulas too large for the other oracles)
}

func declared(c Case) int {
	if c.Entry == "slice" {
		// ParseSlice has no declaration: the variable count is the highest variable used.
		return oracle.MaxVar(c.Clauses)
	}
	return c.N
}

// check solves the case and validates the answer. big selects validation of the answer
// (model evaluation / independent refutation replay / DPLL) instead of a truth table.
func check(c Case, o *vf.Obs) error {
	gs.Arm(c.NbMax, gs.DefaultStepLimit)
	defer gs.Arm(0, 0)
	n := declared(c)
	hasEmpty, hasUnit, hasDup, hasTaut := gen.Shapes(c.Clauses)
	o.ClassIf(hasEmpty, "has-empty-clause")
	o.ClassIf(hasUnit, "has-unit")
	o.ClassIf(hasDup, "has-dup-lit")
	o.ClassIf(hasTaut, "has-tautology")
	o.ClassIf(oracle.MaxVar(c.Clauses) < c.N && c.Entry != "slice", "unused-declared-var")
	o.Class("entry-" + c.Entry)
	o.ClassIf(c.Cert, "cert-on")
	o.ClassIf(c.NbMax > 0, "nbmax-lowered")
	o.ClassIf(c.Family != "", "family-"+c.Family)

	pb, err := gs.ParseCNFProblem(c.Entry, c.N, c.Clauses)
	if err != nil {
		return fmt.Errorf("parse error on a well-formed input: %v", err)
	}
	parseStatus := pb.Status
	s := solver.New(pb)
	s.CuttingPlanes = c.CP && !c.Cert
	o.ClassIf(s.CuttingPlanes, "cutting-planes")
	res, err := gs.Solve(s, c.Cert, n <= 20)
	if err != nil {
		return err
	}
	st := res.Stats
	o.ClassIf(parseStatus != solver.Indet, "parse-decided")
	o.ClassIf(st.NbDecisions > 0, "decisions>0")
	o.ClassIf(st.NbConflicts > 0, "conflicts>0")
	o.ClassIf(st.NbConflicts >= 20, "conflicts>=20")
	o.ClassIf(st.NbDeleted > 0, "reduceDB>0")
	o.ClassIf(st.NbRestarts > 0, "restart>0")
	if parseStatus == solver.Indet && st.NbDecisions > 0 {
		o.Nontrivial()
	}
	if c.Family == "propagation-chain" && len(pb.Units) >= 3 {
		o.Class("parse-units>=3")
		o.Nontrivial() // this family is about parse-time simplification: non-trivial = >=3 facts derived while parsing
	}
	if res.Status != solver.Sat && res.Status != solver.Unsat {
		return fmt.Errorf("Solve returned %v, neither Sat nor Unsat", res.Status)
	}
	o.ClassIf(res.Status == solver.Sat, "sat")
	o.ClassIf(res.Status == solver.Unsat, "unsat")

	// the truth
	var truthSat, truthKnown bool
	if c.Known != "" {
		truthSat, truthKnown = c.Known == "sat", true
	} else if n <= 20 {
		truthSat, truthKnown = oracle.CNFSat(n, c.Clauses), true
	} else if n <= 60 {
		sat, _, done := oracle.DPLL(n, c.Clauses, 3_000_000)
		truthSat, truthKnown = sat, done
	}
	if truthKnown {
		if truthSat != (res.Status == solver.Sat) {
			return fmt.Errorf("verdict %v but the formula is satisfiable=%v", res.Status, truthSat)
		}
		if parseStatus == solver.Sat && !truthSat || parseStatus == solver.Unsat && truthSat {
			return fmt.Errorf("Problem.Status after parsing is %v but satisfiable=%v", parseStatus, truthSat)
		}
	}
	if res.Status == solver.Sat {
		if len(res.Model) != n {
			return fmt.Errorf("model has %d values, %d variables declared", len(res.Model), n)
		}
		if i := oracle.ModelSatisfies(c.Clauses, res.Model); i >= 0 {
			return fmt.Errorf("model %v falsifies clause #%d %v", res.Model, i, c.Clauses[i])
		}
		return nil
	}
	if truthKnown && n <= 20 {
		return nil
	}
	// Unsat on a large instance: accept only with an independently replayed refutation.
	cert := res.Cert
	if !c.Cert {
		gs.Arm(c.NbMax, gs.DefaultStepLimit)
		pb2, err := gs.ParseCNFProblem(c.Entry, c.N, c.Clauses)
		if err != nil {
			return err
		}
		res2, err := gs.Solve(solver.New(pb2), true, false)
		if err != nil {
			return err
		}
		if res2.Status != solver.Unsat {
			return fmt.Errorf("verdict Unsat without certificate but %v with certificate generation on", res2.Status)
		}
		cert = res2.Cert
	}
	bad, refuted := oracle.CheckTrace(n, c.Clauses, cert)
	if bad >= 0 {
		return fmt.Errorf("Unsat answer not backed by a refutation: certificate line %d %v is not RUP", bad, cert[bad])
	}
	if !refuted {
		return fmt.Errorf("Unsat answer not backed by a refutation: empty clause not derivable after %d lines", len(cert))
	}
	o.Class("unsat-validated-by-rup")
	return nil
}

func genConfig(t *rapid.T, n int) (entry string, cert bool, nbmax int) {
	entry = rapid.SampledFrom([]string{"slice", "slicenb", "cnf", "cnf-commented"}).Draw(t, "entry")
	cert = rapid.Bool().Draw(t, "cert")
	switch rapid.IntRange(0, 4).Draw(t, "nbmaxSel") {
	case 1:
		nbmax = n + 1
	case 2:
		nbmax = n + 4
	case 3:
		nbmax = 2*n + 1
	case 4:
		nbmax = rapid.IntRange(1, 8).Draw(t, "tinyLimit") // sound since 88df0d1 (reduction with no stored clause)
	}
	return
}

func genSmall(t *rapid.T) Case {
	n, cls := gen.SmallCNF(t, gen.CNFOpts{MinN: 1, MaxN: 10, MaxRatio: 5, MaxLen: 5, AllowEmpty: true, AllowDup: true, AllowUnit: true, UnusedVarSlack: true})
	c := Case{N: n, Clauses: cls}
	c.Entry, c.Cert, c.NbMax = genConfig(t, n)
	return c
}

// genMid: 3-SAT near the threshold at n = 12..16: truth-table oracle, 10-30 conflicts,
// reduction reachable with nbmax = n+1.
func genMid(t *rapid.T) Case {
	n := gen.Uniform(t, 14, 20, "n")
	m := gen.Uniform(t, 41*n/10, 46*n/10, "m")
	c := Case{N: n, Clauses: gen.KSAT(t, n, m, 3)}
	c.Entry, c.Cert, c.NbMax = genConfig(t, n)
	if c.NbMax == 0 && rapid.Bool().Draw(t, "forceLow") {
		c.NbMax = n + 1
	}
	return c
}

// genChain: deep parse-time unit propagation in every clause order.
func genChain(t *rapid.T) Case {
	var c Case
	c.N, c.Clauses = gen.PropagationChain(t, 2, 12)
	c.Family = "propagation-chain"
	c.Entry, c.Cert, c.NbMax = genConfig(t, c.N)
	return c
}

// genHard: instances that need many conflicts although n <= 20, so that clause-database
// reduction (limit n+1) happens under the truth-table oracle: random parity systems and
// pigeonhole formulas, optionally mixed with a few random clauses.
func genHard(t *rapid.T) Case {
	var c Case
	switch rapid.IntRange(0, 4).Draw(t, "family") {
	case 4: // every conflict learns a unit clause: pairs (x y) (x -y), so a reduction can meet an empty learned database
		k := gen.Uniform(t, 2, 9, "pairs")
		var cls [][]int
		for i := 0; i < k; i++ {
			x, y := 2*i+1, 2*i+2
			if rapid.Bool().Draw(t, "negx") {
				x = -x
			}
			cls = append(cls, []int{x, y}, []int{x, -y})
		}
		for i, m := 0, rapid.IntRange(0, 3).Draw(t, "more"); i < m; i++ {
			cls = append(cls, gen.DistinctLits(t, 2*k, 3, "e"))
		}
		c = Case{N: 2 * k, Clauses: rapid.Permutation(cls).Draw(t, "order"), Family: "unit-conflicts"}
		c.Entry, c.Cert, _ = genConfig(t, c.N)
		c.NbMax = rapid.IntRange(1, k).Draw(t, "limit")
		return c
	case 3: // many binary clauses: learned clauses are short, with low LBD, and often binary themselves
		n := gen.Uniform(t, 16, 20, "n")
		cls := gen.KSAT(t, n, gen.Uniform(t, n, 16*n/10, "m2"), 2)
		cls = append(cls, gen.KSAT(t, n, gen.Uniform(t, 2*n, 3*n, "m3"), 3)...)
		c = Case{N: n, Clauses: cls, Family: "mixed-2-3-sat"}
	case 0:
		n := gen.Uniform(t, 14, 20, "n")
		m := gen.Uniform(t, n-2, n+6, "m")
		c = Case{N: n, Clauses: gen.XorCNF(t, n, m), Family: "xor"}
	default:
		n, cls := gen.Pigeonhole(t, rapid.SampledFrom([]int{3, 4, 4, 4}).Draw(t, "holes"), gen.Chance(t, 1, 4, "drop"))
		c = Case{N: n, Clauses: cls, Family: "php"}
	}
	for i, k := 0, rapid.IntRange(0, 3).Draw(t, "extra"); i < k; i++ {
		c.Clauses = append(c.Clauses, gen.DistinctLits(t, c.N, 3, "e"))
	}
	c.Entry, c.Cert, _ = genConfig(t, c.N)
	if !gen.Chance(t, 1, 5, "defaultLimit") {
		c.NbMax = c.N + 1 + rapid.IntRange(0, 3).Draw(t, "over")
		if rapid.Bool().Draw(t, "tiny") {
			c.NbMax = rapid.IntRange(2, 14).Draw(t, "tinyLimit") // several reductions per run
		}
	}
	c.CP = !c.Cert && gen.Chance(t, 1, 4, "cuttingPlanes")
	return c
}

// genLadder: formulas whose conflicts collect hundreds to more than 10 000 literals (gen.Ladder); the verdict is known
// by construction.
func genLadder(t *rapid.T) Case {
	nx := rapid.SampledFrom([]int{40, 150, 300, 600}).Draw(t, "nx") + rapid.IntRange(0, 40).Draw(t, "plus")
	if gen.Chance(t, 1, 3, "huge") {
		nx = 10001 + rapid.IntRange(0, 2500).Draw(t, "hugePlus")
	}
	if rapid.Bool().Draw(t, "wideConflict") {
		// two clauses over all of Y that differ by the sign of b, Y tied to a master variable that a helper forbids, and
		// variable 1 forbidden too: satisfiable (a true, the rest false), and the first conflict collects |Y| literals
		// of lower levels
		nbY := nx
		const z, b, a, w, firstY = 1, 2, 3, 4, 5
		n := firstY + nbY - 1
		master := n
		if rapid.Bool().Draw(t, "masterFirst") {
			master = firstY
		}
		wide1, wide2 := make([]int, 0, nbY+2), make([]int, 0, nbY+2)
		for y := firstY; y <= n; y++ {
			wide1, wide2 = append(wide1, y), append(wide2, y)
		}
		cls := [][]int{append(wide1, a, b), append(wide2, a, -b)}
		for y := firstY; y <= n; y++ {
			if y != master {
				cls = append(cls, []int{master, -y})
			}
		}
		cls = append(cls, []int{-master, w}, []int{-master, -w})
		if rapid.Bool().Draw(t, "forbidFirst") {
			cls = append(cls, []int{-z, w}, []int{-z, -w})
		}
		return Case{N: n, Clauses: cls, Family: "wide-conflict", Known: "sat", Entry: rapid.SampledFrom([]string{"slicenb", "cnf", "slice"}).Draw(t, "entry")}
	}
	var c Case
	var tail string
	c.N, c.Clauses, tail = gen.Ladder(t, nx)
	c.Family = "ladder-" + tail
	c.Known = "sat"
	if tail == "unsat" {
		c.Known = "unsat"
	}
	c.Entry = rapid.SampledFrom([]string{"slicenb", "cnf", "slice"}).Draw(t, "entry")
	c.Cert = tail == "unsat" && nx <= 200 && rapid.Bool().Draw(t, "cert")
	return c
}

func genHeavy(t *rapid.T) Case {
	maxN := 110
	if vf.Thorough() {
		maxN = 160
	}
	n := gen.Uniform(t, 40, maxN, "n")
	ratio := gen.Uniform(t, 400, 460, "ratio")
	m := n * ratio / 100
	c := Case{N: n, Clauses: gen.KSAT(t, n, m, 3)}
	c.Entry, c.Cert, _ = genConfig(t, n)
	switch rapid.IntRange(0, 2).Draw(t, "nbmaxSel2") {
	case 1:
		c.NbMax = n + 1
	case 2:
		c.NbMax = n + 20
	}
	c.CP = !c.Cert && gen.Chance(t, 1, 4, "cuttingPlanes")
	return c
}

// ---- exhaustive tiers

var lits2 = []int{1, -1, 2, -2}

func shapes(lits []int, maxLen int) [][]int {
	res := [][]int{{}}
	level := [][]int{{}}
	for l := 1; l <= maxLen; l++ {
		var next [][]int
		for _, p := range level {
			for _, x := range lits {
				q := append(append([]int{}, p...), x)
				next = append(next, q)
			}
		}
		res = append(res, next...)
		level = next
	}
	return res
}

func eachExhaustive(tier string, shard, nshards int, yield func(Case) bool) {
	all := shapes(lits2, 3)   // 85 shapes
	short := shapes(lits2, 2) // 21 shapes
	i := 0
	emit := func(cls [][]int, entry string, n int) bool {
		i++
		if i%nshards != shard {
			return true
		}
		return yield(Case{N: n, Clauses: cls, Entry: entry})
	}
	for _, n := range []int{2, 3} {
		// 0 and 1 clause, all pairs over the 85 shapes
		if !emit([][]int{}, "slicenb", n) {
			return
		}
		for _, a := range all {
			if !emit([][]int{a}, "slicenb", n) {
				return
			}
			for _, b := range all {
				if !emit([][]int{a, b}, "slicenb", n) {
					return
				}
			}
		}
		// all ordered triples over the 21 short shapes (quick), over the 85 shapes (thorough)
		tri := short
		if tier == "thorough" {
			tri = all
		}
		for _, a := range tri {
			for _, b := range tri {
				for _, d := range tri {
					if !emit([][]int{a, b, d}, "slicenb", n) {
						return
					}
				}
			}
		}
	}
	// the pairs again through the DIMACS reader
	for _, a := range all {
		for _, b := range all {
			if !emit([][]int{a, b}, "cnf", 2) {
				return
			}
		}
	}
	if tier == "thorough" {
		// n = 3, up to 2 clauses over all 259 shapes of length <= 3
		all3 := shapes([]int{1, -1, 2, -2, 3, -3}, 3)
		for _, a := range all3 {
			for _, b := range all3 {
				if !emit([][]int{a, b}, "slicenb", 3) {
					return
				}
			}
		}
	}
}

func init() {
	vf.Register(
		vf.Enum[Case]{
			Name: "exhaustive-tiny",
			Rule: "every ordered list of <=2 clauses over the 85 literal sequences of length 0..3 on 2 variables (declared n in {2,3}; ParseSliceNb and ParseCNF), every ordered triple over the 21 sequences of length <=2 (thorough: over all 85, plus n=3 pairs over 259 sequences); truth-table oracle; non-trivial = not decided at parse time and >=1 decision",
			Each: eachExhaustive, Check: check,
		},
		vf.Sub[Case]{
			Name: "random-small", Quick: 12000, Thorough: 90000, Gen: genSmall, Check: check, Floor: 0.15,
			Rule: "n in 1..10, 0..40 clauses of length 0..5 with duplicate literals, tautologies, units, empty clauses, unused declared variables; entry ParseSlice|ParseSliceNb|ParseCNF x certificate on/off x learned-clause limit {default,1..8,n+1,n+4,2n+1}; truth-table oracle; non-trivial = not decided at parse time and >=1 decision",
		},
		vf.Sub[Case]{
			Name: "propagation-chains", Quick: 8000, Thorough: 60000, Gen: genChain, Check: check, Floor: 0.4,
			Rule: "formulas whose unit propagation runs deep (hidden assignment, 1-2 unit clauses, implication clauses that become unit one after the other, optional falsified clause), clause and literal order shuffled, units sometimes written with a repeated literal; n in 2..12; truth-table oracle; non-trivial = >=3 facts derived at parse time, or the general rule",
		},
		vf.Sub[Case]{
			Name: "threshold-3sat-n14-20", Quick: 1500, Thorough: 20000, Gen: genMid, Check: check, Floor: 0.9,
			Classes: map[string]float64{"conflicts>0": 0.8},
			Rule:    "uniform 3-SAT, distinct variables per clause, n in 14..20, ratio 4.1..4.6, lowered learned-clause limit in most cases; truth-table oracle (2^n assignments); non-trivial as above",
		},
		vf.Sub[Case]{
			Name: "hard-small-xor-php", Quick: 4000, Thorough: 20000, Gen: genHard, Check: check, Floor: 0.8,
			Classes: map[string]float64{"conflicts>=20": 0.12, "reduceDB>0": 0.06},
			Rule:    "random 3-parity systems (n in 14..20, about n constraints, 4 clauses each) and pigeonhole formulas PHP(4,3)/PHP(5,4), mixes of random 2- and 3-clauses at n 16..20 (variables renamed, polarities flipped, clauses shuffled, sometimes one pigeon dropped), plus 0..3 random clauses; learned-clause limit n+1..n+4 or 2..14 in 80% so clause-database reductions (several per run with the tiny limits) happen under the truth-table oracle; a family of (x y)(x -y) pairs whose conflicts all learn unit clauses; non-trivial as above",
		},
		vf.Sub[Case]{
			Name: "search-heavy-3sat", Quick: 250, Thorough: 2500, Gen: genHeavy, Check: check, Floor: 0.9,
			Classes: map[string]float64{"conflicts>=20": 0.5, "reduceDB>0": 0.15},
			Rule:    "uniform 3-SAT, n in 40..110 (thorough ..160), ratio 4.0..4.6; Sat answers validated by evaluating the model, Unsat answers by replaying the solver's certificate with an independent RUP checker and, for n<=60, by an independent DPLL; non-trivial as above",
		},
	)
}

func TestMain(m *testing.M)   { vf.Main(m, "C01") }
func TestCorpus(t *testing.T) { vf.Corpus(t) }
func TestProp(t *testing.T)   { vf.RunAll(t) }
func TestReplay(t *testing.T) { vf.ReplayEnv(t) }

// native fuzz targets (thorough tier): the fuzzer mutates the byte stream that rapid decodes into generator choices
func FuzzRandomSmall(f *testing.F) { vf.FuzzNamed(f, "C01", "random-small") }
func FuzzHardSmall(f *testing.F)   { vf.FuzzNamed(f, "C01", "hard-small-xor-php") }

// ---- solvers at work side by side --------------------------------------------------------------------

// ParCase: G goroutines each solve Per formulas of their own (3-SAT with a planted model, N variables, built from
// Seed by a fixed generator, so that the case stays small). The property quantifies over formulas, not over what
// else the process is doing: every one of these answers must be Sat with a valid model.
type ParCase struct {
	G    int    `json:"g"`
	Per  int    `json:"per"`
	N    int    `json:"n"`
	Seed uint64 `json:"seed"`
}

func plantedFormula(n int, seed uint64) ([][]int, []bool) {
	x := seed*0x9e3779b97f4a7c15 + 0x2545f4914f6cdd1d
	next := func() uint64 {
		x ^= x << 13
		x ^= x >> 7
		x ^= x << 17
		return x
	}
	planted := make([]bool, n+1)
	for v := 1; v <= n; v++ {
		planted[v] = next()&1 == 1
	}
	var cls [][]int
	for len(cls) < n*42/10 {
		var cl []int
		ok := false
		for len(cl) < 3 {
			v := int(next()%uint64(n)) + 1
			dup := false
			for _, l := range cl {
				if l == v || l == -v {
					dup = true
				}
			}
			if dup {
				continue
			}
			if next()&1 == 1 {
				v = -v
			}
			if (v > 0) == planted[abs(v)] {
				ok = true
			}
			cl = append(cl, v)
		}
		if ok {
			cls = append(cls, cl)
		}
	}
	return cls, planted
}

func abs(a int) int {
	if a < 0 {
		return -a
	}
	return a
}

func checkPar(c ParCase, o *vf.Obs) error {
	gs.Arm(0, 0)
	errs := make([]error, c.G)
	conflicts := make([]int, c.G)
	var wg sync.WaitGroup
	for g := 0; g < c.G; g++ {
		wg.Add(1)
		go func(g int) {
			defer wg.Done()
			errs[g] = vf.Safely(func() error {
				for j := 0; j < c.Per; j++ {
					cls, _ := plantedFormula(c.N, c.Seed+uint64(g*1000+j))
					s := solver.New(solver.ParseSliceNb(oracle.CloneCNF(cls), c.N))
					st := s.Solve()
					conflicts[g] += s.Stats.NbConflicts
					if st != solver.Sat {
						return fmt.Errorf("goroutine %d, formula %d (%d variables, built from seed %d): Solve = %v, the formula has a model by construction", g, j, c.N, c.Seed+uint64(g*1000+j), st)
					}
					m := s.Model()
					if len(m) != c.N {
						return fmt.Errorf("goroutine %d, formula %d: the model has %d values, the formula %d variables", g, j, len(m), c.N)
					}
					if i := oracle.ModelSatisfies(cls, m); i >= 0 {
						return fmt.Errorf("goroutine %d, formula %d (seed %d): the model violates clause %v", g, j, c.Seed+uint64(g*1000+j), cls[i])
					}
				}
				return nil
			})
		}(g)
	}
	wg.Wait()
	total := 0
	for g := range errs {
		if errs[g] != nil {
			return fmt.Errorf("%d solvers at work side by side: %v", c.G, errs[g])
		}
		total += conflicts[g]
	}
	if total >= 100*c.G {
		o.Nontrivial()
	}
	return nil
}

func genPar(t *rapid.T) ParCase {
	return ParCase{G: rapid.SampledFrom([]int{2, 4, 8}).Draw(t, "g"), Per: rapid.IntRange(30, 120).Draw(t, "per"), N: gen.Uniform(t, 60, 100, "n"), Seed: rapid.Uint64().Draw(t, "seed")}
}

func genLongOdd(t *rapid.T) Case {
	var c Case
	c.N, c.Clauses = gen.LongOddClauses(t)
	c.Family = "long-odd-clauses"
	c.Entry, c.Cert, c.NbMax = genConfig(t, c.N)
	return c
}

func init() {
	vf.Register(vf.Sub[Case]{Name: "long-odd-clauses", Quick: 1500, Thorough: 20000, Gen: genLongOdd, Check: check, Floor: 0.1,
		Rule: "34..50 variables, 2..4 clauses of 33..n+6 literals drawn with replacement (repeated literals, tautologies) next to 5..25 clauses of 1..3 literals, the three entry points; DPLL oracle, models evaluated; non-trivial as above"})
}

func init() {
	vf.Register(vf.Sub[Case]{Name: "ladders", Quick: 12, Thorough: 60, Gen: genLadder, Check: check, Floor: 0.5,
		Rule: "ladder formulas (gen.Ladder: a clause over 40..640 or 10 001..12 500 variables split on a helper, followed by an implication chain or a gadget; or two clauses over all of a set Y tied to a master variable) whose first conflicts collect that many literals; verdict known by construction (the other oracles do not reach these sizes), models evaluated; non-trivial as above"})
}

func init() {
	vf.Register(vf.Sub[ParCase]{Name: "side-by-side", Quick: 10, Thorough: 80, Gen: genPar, Check: checkPar, Floor: 0.5,
		Rule: "2..8 goroutines each build and solve 30..120 formulas of their own (3-SAT at ratio 4.2 over 60..100 variables with a planted model, derived from a drawn seed by a fixed generator): every answer must be Sat with a model of the right length that satisfies every clause, and nothing may panic; non-trivial = >= 100 conflicts per goroutine"})
}
