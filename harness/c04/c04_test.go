//go:build verif

// C04 — MaxSAT answers minimise the weight of violated soft constraints.
package c04

import (
	"fmt"
	"sort"
	"strings"
	"testing"

	"github.com/crillab/gophersat/maxsat"
	"github.com/crillab/gophersat/solver"
	"pgregory.net/rapid"
	"verifharness/gen"
	"verifharness/gs"
	"verifharness/oracle"
	"verifharness/texts"
	"verifharness/vf"
)

// MC is one weighted constraint: sum Coeffs*lits >= AtLeast, Weight 0 = hard.
type MC struct {
	Lits    []int `json:"lits"`
	Coeffs  []int `json:"coeffs,omitempty"` // nil: clause / cardinality constraint
	AtLeast int   `json:"atleast"`
	Weight  int   `json:"weight"`
}

func (m MC) sem() oracle.Constr {
	return oracle.Constr{Lits: m.Lits, Coefs: m.Coeffs, Rel: ">=", K: m.AtLeast}
}

type Case struct {
	Kind    string `json:"kind"`               // api | wcnf
	NVars   int    `json:"nvars,omitempty"`    // wcnf: declared variables
	Top     int    `json:"top,omitempty"`      // wcnf: top weight (0 = none)
	OverTop bool   `json:"over_top,omitempty"` // wcnf: some hard clauses are written with a weight above top
	Constrs []MC   `json:"constrs"`
}

func name(v int) string { return fmt.Sprintf("v%d", v) }

// truth returns (hard satisfiable, minimal cost) over n variables.
func truth(n int, cs []MC) (bool, int) {
	best, feasible := 0, false
	for m := uint64(0); m < 1<<uint(n); m++ {
		cost, ok := 0, true
		for _, c := range cs {
			if c.sem().True(m) {
				continue
			}
			if c.Weight == 0 {
				ok = false
				break
			}
			cost += c.Weight
		}
		if ok && (!feasible || cost < best) {
			best, feasible = cost, true
		}
	}
	return feasible, best
}

func costOf(cs []MC, m uint64) (int, int) {
	cost := 0
	for i, c := range cs {
		if !c.sem().True(m) {
			if c.Weight == 0 {
				return 0, i
			}
			cost += c.Weight
		}
	}
	return cost, -1
}

func classify(c Case, o *vf.Obs, feasible bool, best int) {
	hard, soft := 0, 0
	for _, mc := range c.Constrs {
		if mc.Weight == 0 {
			hard++
		} else {
			soft++
		}
		switch {
		case mc.Coeffs != nil:
			o.Class("constr-pb")
		case mc.AtLeast != 1:
			o.Class("constr-card")
		default:
			o.Class("constr-clause")
		}
		o.ClassIf(mc.AtLeast <= 0, "trivially-true-constr")
		o.ClassIf(mc.Weight > 0 && mc.AtLeast <= 0, "soft-trivially-true")
	}
	o.ClassIf(!feasible, "hard-unsat")
	o.ClassIf(feasible && best > 0, "optimum>0")
	if feasible && best > 0 && hard > 0 {
		o.Nontrivial()
	}
}

func checkAPI(c Case, o *vf.Obs) error {
	gs.Arm(0, gs.DefaultStepLimit)
	defer gs.Arm(0, 0)
	used := map[int]bool{}
	n := 0
	for _, mc := range c.Constrs {
		for _, l := range mc.Lits {
			v := l
			if v < 0 {
				v = -v
			}
			used[v] = true
			if v > n {
				n = v
			}
		}
	}
	feasible, best := truth(n, c.Constrs)
	classify(c, o, feasible, best)
	// The constraints are built once, their coefficient slices carved out of one array (with spare
	// capacity behind each, as a caller using an arena would have), and the same values are given to
	// maxsat.New three times (it iterates a map to build the cost function, so outcomes may differ):
	// the library must neither depend on nor modify the caller's data.
	var cs []maxsat.Constr
	var arena []int
	for _, mc := range c.Constrs {
		arena = append(arena, mc.Coeffs...)
	}
	arena = append(arena, 0, 0, 0)
	off := 0
	for _, mc := range c.Constrs {
		lits := make([]maxsat.Lit, len(mc.Lits))
		for i, l := range mc.Lits {
			if l > 0 {
				lits[i] = maxsat.Var(name(l))
			} else {
				lits[i] = maxsat.Not(name(-l))
			}
		}
		var co []int
		if mc.Coeffs != nil {
			co = arena[off : off+len(mc.Coeffs)]
			off += len(mc.Coeffs)
		}
		cs = append(cs, maxsat.Constr{Lits: lits, Coeffs: co, AtLeast: mc.AtLeast, Weight: mc.Weight})
	}
	// what the caller's values *mean* must survive a call (the same values are used again right after): each
	// constraint as a sorted list of (literal, coefficient) pairs with its degree and weight. A library that reordered
	// a constraint's literals and coefficients together would pass; one that writes into a neighbour's cells, or
	// reorders one slice only, does not.
	meaning := func() string {
		var sb strings.Builder
		for _, k := range cs {
			var terms []string
			for i, l := range k.Lits {
				co := 1
				if k.Coeffs != nil {
					if i >= len(k.Coeffs) {
						terms = append(terms, "?")
						continue
					}
					co = k.Coeffs[i]
				}
				terms = append(terms, fmt.Sprintf("%d*%v", co, l))
			}
			sort.Strings(terms)
			fmt.Fprintf(&sb, "%v>=%d@%d;", terms, k.AtLeast, k.Weight)
		}
		return sb.String()
	}
	before := meaning()
	for rep := 0; rep < 3; rep++ {
		model, cost := maxsat.New(cs...).Solve()
		if after := meaning(); after != before {
			return fmt.Errorf("rep %d: maxsat.New/Solve changed the constraints the caller holds (and uses again): %s -> %s", rep, before, after)
		}
		if !feasible {
			if model != nil {
				return fmt.Errorf("rep %d: hard constraints are unsatisfiable but a model (cost %d) was returned", rep, cost)
			}
			continue
		}
		if model == nil {
			return fmt.Errorf("rep %d: nil model (cost %d) although the hard constraints are satisfiable (minimum %d)", rep, cost, best)
		}
		if len(model) != len(used) {
			return fmt.Errorf("rep %d: model has %d keys %v, the instance uses %d variables", rep, len(model), model, len(used))
		}
		var m uint64
		for v := range used {
			b, ok := model[name(v)]
			if !ok {
				return fmt.Errorf("rep %d: model %v lacks variable %s", rep, model, name(v))
			}
			if b {
				m |= 1 << uint(v-1)
			}
		}
		got, viol := costOf(c.Constrs, m)
		if viol >= 0 {
			return fmt.Errorf("rep %d: model %v violates hard constraint #%d %v", rep, model, viol, c.Constrs[viol].sem())
		}
		if got != cost {
			return fmt.Errorf("rep %d: reported cost %d but the returned model violates soft constraints of total weight %d", rep, cost, got)
		}
		if cost != best {
			return fmt.Errorf("rep %d: reported cost %d, minimum is %d", rep, cost, best)
		}
	}
	return nil
}

func checkWCNF(c Case, o *vf.Obs) error {
	gs.Arm(0, gs.DefaultStepLimit)
	defer gs.Arm(0, 0)
	feasible, best := truth(c.NVars, c.Constrs)
	classify(c, o, feasible, best)
	o.ClassIf(c.Top == 0, "no-top-weight")
	mv := 0
	var wcs []texts.WClause
	for _, mc := range c.Constrs {
		wcs = append(wcs, texts.WClause{Lits: mc.Lits, Weight: mc.Weight})
		if v := oracle.MaxVar([][]int{mc.Lits}); v > mv {
			mv = v
		}
	}
	o.ClassIf(mv < c.NVars, "unused-declared-var")
	o.ClassIf(c.OverTop, "hard-weights-above-top")
	txt := texts.WCNF(c.NVars, c.Top, wcs, texts.WCNFLayout{OverTop: c.OverTop})
	validate := func(what string, r solver.Result) error {
		if !feasible {
			if r.Status != solver.Unsat {
				return fmt.Errorf("%s: status %v but the hard clauses are unsatisfiable", what, r.Status)
			}
			return nil
		}
		if r.Status != solver.Sat {
			return fmt.Errorf("%s: status %v but the hard clauses are satisfiable (minimum %d)", what, r.Status, best)
		}
		if len(r.Model) != c.NVars {
			return fmt.Errorf("%s: model has %d values, %d variables declared (relaxation variables leaking?)", what, len(r.Model), c.NVars)
		}
		got, viol := costOf(c.Constrs, oracle.MaskOf(r.Model))
		if viol >= 0 {
			return fmt.Errorf("%s: model %v violates hard clause #%d %v", what, r.Model, viol, c.Constrs[viol].Lits)
		}
		if got != r.Weight {
			return fmt.Errorf("%s: reported cost %d but the model violates soft clauses of total weight %d", what, r.Weight, got)
		}
		if r.Weight != best {
			return fmt.Errorf("%s: reported cost %d, minimum is %d", what, r.Weight, best)
		}
		return nil
	}
	s1, err := maxsat.ParseWCNF(texts.ReaderFor(txt))
	if err != nil {
		return fmt.Errorf("ParseWCNF rejects a well-formed text: %v\n%s", err, txt)
	}
	if err := validate("Optimal(nil)", s1.Optimal(nil, nil)); err != nil {
		return err
	}
	s2, _ := maxsat.ParseWCNF(strings.NewReader(txt))
	ch := make(chan solver.Result)
	done := make(chan struct{})
	var last solver.Result
	cnt := 0
	go func() {
		for r := range ch {
			last = r
			cnt++
		}
		close(done)
	}()
	var r2 solver.Result
	if perr := vf.Safely(func() error { r2 = s2.Optimal(ch, nil); return nil }); perr != nil {
		func() { defer func() { recover() }(); close(ch) }()
		<-done
		return perr
	}
	<-done
	if err := validate("Optimal(chan)", r2); err != nil {
		return err
	}
	if cnt == 0 {
		return fmt.Errorf("Optimal(chan): nothing was delivered on the channel")
	}
	if err := validate("Optimal(chan) last delivered", last); err != nil {
		return err
	}
	return nil
}

func genAPI(t *rapid.T) Case {
	n := gen.Uniform(t, 1, 6, "n")
	m := gen.Uniform(t, 1, 10, "m")
	c := Case{Kind: "api"}
	hardRate := rapid.SampledFrom([]int{2, 5, 8}).Draw(t, "hardRate")
	for i := 0; i < m; i++ {
		mc := MC{}
		k := gen.Uniform(t, 1, min(n, 4), "arity")
		mc.Lits = gen.DistinctLits(t, n, k, "l")
		switch rapid.IntRange(0, 5).Draw(t, "kind") {
		case 0, 1, 2:
			mc.AtLeast = 1
		case 3: // cardinality: Coeffs nil, any degree incl. trivial ones
			mc.AtLeast = rapid.IntRange(-1, k+1).Draw(t, "k")
		default:
			sum := 0
			for range mc.Lits {
				w := rapid.IntRange(1, 5).Draw(t, "co")
				mc.Coeffs = append(mc.Coeffs, w)
				sum += w
			}
			mc.AtLeast = rapid.IntRange(0, sum+1).Draw(t, "k")
		}
		if !gen.Chance(t, hardRate, 10, "hard") {
			mc.Weight = rapid.IntRange(1, 9).Draw(t, "weight")
		}
		c.Constrs = append(c.Constrs, mc)
	}
	addGadgets(t, &c, n)
	return c
}

// genHardPB: mostly hard weighted constraints with one dominant coefficient (they force a literal while parsing and
// stay non-trivial), in a drawn order, plus a few soft clauses: the parse-time simplification of the hard part has to
// reach its fix-point whatever the order of the constraints.
func genHardPB(t *rapid.T) Case {
	n := gen.Uniform(t, 3, 7, "n")
	c := Case{Kind: "api"}
	for i, m := 0, gen.Uniform(t, 3, 8, "m"); i < m; i++ {
		mc := MC{}
		k := gen.Uniform(t, 2, min(n, 4), "arity")
		mc.Lits = gen.DistinctLits(t, n, k, "l")
		switch rapid.IntRange(0, 3).Draw(t, "kind") {
		case 0:
			mc.AtLeast = 1
		case 1:
			mc.AtLeast = rapid.IntRange(1, k).Draw(t, "k")
		default:
			sum := 0
			for j := range mc.Lits {
				w := rapid.IntRange(1, 2).Draw(t, "co")
				if j == 0 {
					w = rapid.IntRange(2, 5).Draw(t, "dominant")
				}
				mc.Coeffs = append(mc.Coeffs, w)
				sum += w
			}
			// degree above what the light terms can reach alone: the dominant literal is forced
			mc.AtLeast = sum - mc.Coeffs[0] + rapid.IntRange(1, mc.Coeffs[0]).Draw(t, "k")
			at := gen.Uniform(t, 0, k-1, "dominantAt")
			mc.Lits[0], mc.Lits[at] = mc.Lits[at], mc.Lits[0]
			mc.Coeffs[0], mc.Coeffs[at] = mc.Coeffs[at], mc.Coeffs[0]
		}
		if gen.Chance(t, 1, 8, "soft") {
			mc.Weight = rapid.IntRange(1, 9).Draw(t, "weight")
		}
		c.Constrs = append(c.Constrs, mc)
	}
	for i, k := 0, rapid.IntRange(0, 3).Draw(t, "softUnits"); i < k; i++ {
		c.Constrs = append(c.Constrs, MC{Lits: []int{gen.Lit(t, n, "s")}, AtLeast: 1, Weight: rapid.IntRange(1, 9).Draw(t, "sw")})
	}
	c.Constrs = rapid.Permutation(c.Constrs).Draw(t, "order")
	return c
}

// genManySoft: 34..46 soft clauses with pairwise different weights (the bound on the cost that each improvement adds
// is a weighted constraint over that many literals), a few hard clauses, and often a hard unit clause that contradicts
// the heaviest soft clause (its relaxation literal is fixed at top level and leaves the bound constraints).
func genManySoft(kind string) func(t *rapid.T) Case {
	return func(t *rapid.T) Case {
		n := gen.Uniform(t, 8, 12, "n")
		c := Case{Kind: kind, NVars: n}
		m := gen.Uniform(t, 34, 46, "soft")
		weights := rapid.Permutation(seqInts(1, m)).Draw(t, "weights")
		heaviest := 0
		for i := 0; i < m; i++ {
			mc := MC{Lits: gen.DistinctLits(t, n, gen.Uniform(t, 1, 3, "arity"), "l"), AtLeast: 1, Weight: weights[i]}
			if weights[i] == m {
				mc.Lits = mc.Lits[:1]
				heaviest = mc.Lits[0]
			}
			c.Constrs = append(c.Constrs, mc)
		}
		for i, k := 0, rapid.IntRange(1, 5).Draw(t, "hard"); i < k; i++ {
			c.Constrs = append(c.Constrs, MC{Lits: gen.DistinctLits(t, n, gen.Uniform(t, 2, 3, "harity"), "h"), AtLeast: 1})
		}
		if heaviest != 0 && !gen.Chance(t, 1, 3, "noContradiction") {
			c.Constrs = append(c.Constrs, MC{Lits: []int{-heaviest}, AtLeast: 1})
		}
		c.Constrs = rapid.Permutation(c.Constrs).Draw(t, "order")
		c.Top = m*(m+1)/2 + 1
		return c
	}
}

func seqInts(lo, hi int) []int {
	var s []int
	for i := lo; i <= hi; i++ {
		s = append(s, i)
	}
	return s
}

// addGadgets appends soft unit clauses on which the weight-greedy first model is sub-optimal
// (one heavy clause against several lighter opposite ones whose total weight is larger), so that
// the optimum is > 0 and reached after several improvement rounds.
func addGadgets(t *rapid.T, c *Case, n int) int {
	sum := 0
	for g, k := 0, rapid.IntRange(0, 2).Draw(t, "gadgets"); g < k; g++ {
		l := gen.Lit(t, n, "g")
		heavy := rapid.IntRange(3, 9).Draw(t, "heavy")
		c.Constrs = append(c.Constrs, MC{Lits: []int{l}, AtLeast: 1, Weight: heavy})
		sum += heavy
		for tot := 0; tot <= heavy; {
			w := rapid.IntRange(1, heavy-1).Draw(t, "light")
			c.Constrs = append(c.Constrs, MC{Lits: []int{-l}, AtLeast: 1, Weight: w})
			tot += w
			sum += w
		}
	}
	return sum
}

func genWCNF(t *rapid.T) Case {
	n := gen.Uniform(t, 1, 6, "n")
	c := Case{Kind: "wcnf"}
	used := n
	if gen.Chance(t, 1, 3, "slack") {
		used = gen.Uniform(t, 1, n, "used")
	}
	c.NVars = n
	m := gen.Uniform(t, 1, 14, "m")
	withTop := !gen.Chance(t, 1, 4, "noTop")
	hardRate := rapid.SampledFrom([]int{2, 5, 8}).Draw(t, "hardRate")
	sum := 0
	for i := 0; i < m; i++ {
		mc := MC{AtLeast: 1}
		k := gen.Uniform(t, 1, min(used, 4), "arity")
		if gen.Chance(t, 1, 25, "emptyClause") {
			k = 0
		}
		mc.Lits = gen.DistinctLits(t, used, k, "l")
		if k > 1 && gen.Chance(t, 1, 10, "dup") {
			mc.Lits = append(mc.Lits, mc.Lits[0])
		}
		if !withTop || !gen.Chance(t, hardRate, 10, "hard") {
			mc.Weight = rapid.IntRange(1, 9).Draw(t, "weight")
			sum += mc.Weight
		}
		c.Constrs = append(c.Constrs, mc)
	}
	sum += addGadgets(t, &c, used)
	if withTop {
		c.Top = sum + 1 + rapid.IntRange(0, 3).Draw(t, "topSlack")
		c.OverTop = gen.Chance(t, 1, 3, "overTop")
	}
	return c
}

func min(a, b int) int {
	if a < b {
		return a
	}
	return b
}

func init() {
	vf.Register(
		vf.Sub[Case]{Name: "api", Quick: 8000, Thorough: 50000, Gen: genAPI, Check: checkAPI, Floor: 0.25,
			Rule: "maxsat.New(...).Solve(): 1..10 constraints over <=6 named variables, hard/soft split, weights 1..9; clauses, cardinality constraints (Coeffs nil, degree -1..len+1) and PB constraints with positive coefficients (degree 0..sum+1); the constraint values (coefficient slices carved out of one array) are given to maxsat.New 3 times (map-ordered cost function) and must keep their meaning (each constraint as a set of weighted literals with its degree and weight); oracle = brute force; non-trivial = >=1 hard constraint and >=1 soft constraint violated at the optimum"},
		vf.Sub[Case]{Name: "hard-pb-systems", Quick: 8000, Thorough: 50000, Gen: genHardPB, Check: checkAPI, Floor: 0.1,
			Rule: "maxsat.New(...).Solve(): 3..8 mostly hard constraints over 3..7 named variables in a drawn order - clauses, cardinality constraints, and weighted constraints with one dominant coefficient and a degree that the other terms cannot reach (a literal is forced while parsing, the rest of the constraint stays) - plus 0..3 soft unit clauses; same oracle as api"},
		vf.Sub[Case]{Name: "many-soft-api", Quick: 1000, Thorough: 4000, Gen: genManySoft("api"), Check: checkAPI, Floor: 0.5,
			Rule: "maxsat.New(...).Solve(): 34..46 soft clauses of 1..3 literals with pairwise different weights over 8..12 variables (the bound added after each model is a weighted constraint over more than 32 literals), 1..5 hard clauses, in two cases out of three a hard unit clause contradicting the heaviest soft clause; same oracle as api"},
		vf.Sub[Case]{Name: "many-soft-wcnf", Quick: 1000, Thorough: 4000, Gen: genManySoft("wcnf"), Check: checkWCNF, Floor: 0.5,
			Rule: "the same instances as WCNF text; same oracle as wcnf"},
		vf.Sub[Case]{Name: "wcnf", Quick: 8000, Thorough: 50000, Gen: genWCNF, Check: checkWCNF, Floor: 0.18, Journal: true,
			Rule: "ParseWCNF of a generated text (declared variables >= highest used, with/without top weight, soft weights < top, empty clauses, duplicate literals), Optimal(nil) and Optimal(chan) each on a fresh solver; oracle = brute force over the declared variables; non-trivial as above"},
	)
}

func TestMain(m *testing.M)   { vf.Main(m, "C04") }
func TestCorpus(t *testing.T) { vf.Corpus(t) }
func TestProp(t *testing.T)   { vf.RunAll(t) }
func TestReplay(t *testing.T) { vf.ReplayEnv(t) }

// native fuzz targets (thorough tier): the fuzzer mutates the byte stream that rapid decodes into generator choices
func FuzzAPI(f *testing.F) { vf.FuzzNamed(f, "C04", "api") }

// ---- MaxSAT with real search inside: soft pigeonhole, optimum known by construction -----------------------

// SoftPHP: holes+1 pigeons; "pigeon p sits somewhere" is a soft clause of weight W[p] (or, with AtMost set, the hole
// capacities are hard cardinality constraints instead of pairwise clauses); sharing a hole is forbidden (hard).
// Exactly one pigeon has to be given up: the optimum is the smallest weight, and proving it refutes a pigeonhole
// formula (hundreds to thousands of conflicts, restarts, reductions) after the first models were found.
type SoftPHP struct {
	Holes  int    `json:"holes"`
	W      []int  `json:"w"`
	AtMost bool   `json:"at_most"` // api only: one cardinality constraint per hole instead of pairwise clauses
	Via    string `json:"via"`     // api | wcnf-nil | wcnf-chan
	Fixed  int    `json:"fixed"`   // pigeons 0..Fixed-1 are seated in holes 0..Fixed-1 by hard unit clauses
	Banned int    `json:"banned"`  // > 0: one more soft clause of that weight over fresh variables that hard unit clauses all falsify (always paid)
}

func checkSoftPHP(c SoftPHP, o *vf.Obs) error {
	gs.Arm(0, 400_000_000)
	defer gs.Arm(0, 0)
	holes, pigeons := c.Holes, c.Holes+1
	n := pigeons * holes
	v := func(p, h int) int { return p*holes + h + 1 }
	want := -1
	for p, w := range c.W {
		if p >= c.Fixed && (want < 0 || w < want) { // a pigeon seated by a hard unit clause cannot be given up
			want = w
		}
	}
	if c.Banned > 0 {
		want += c.Banned
	}
	o.ClassIf(c.Fixed > 0, "hard-unit-clauses")
	o.ClassIf(c.Banned > 0, "soft-clause-falsified-by-hard-units")
	nAll := n
	if c.Banned > 0 {
		nAll = n + 3
	}
	o.Class("via-" + c.Via)
	o.Class(fmt.Sprintf("holes-%d", holes))
	o.Nontrivial()
	seated := func(val func(x int) bool) (cost int, err error) {
		for p := 0; p < c.Fixed; p++ {
			if !val(v(p, p)) {
				return 0, fmt.Errorf("the returned assignment violates the hard unit clause that seats pigeon %d in hole %d", p, p)
			}
		}
		for h := 0; h < holes; h++ {
			k := 0
			for p := 0; p < pigeons; p++ {
				if val(v(p, h)) {
					k++
				}
			}
			if k > 1 {
				return 0, fmt.Errorf("the returned assignment puts %d pigeons in hole %d: a hard constraint is violated", k, h)
			}
		}
		for p := 0; p < pigeons; p++ {
			sits := false
			for h := 0; h < holes; h++ {
				if val(v(p, h)) {
					sits = true
				}
			}
			if !sits {
				cost += c.W[p]
			}
		}
		if c.Banned > 0 {
			for x := n + 1; x <= n+3; x++ {
				if val(x) {
					return 0, fmt.Errorf("the returned assignment violates the hard unit clause -%d", x)
				}
			}
			cost += c.Banned
		}
		return cost, nil
	}
	if c.Via == "api" {
		var cs []maxsat.Constr
		for p := 0; p < pigeons; p++ {
			var lits []maxsat.Lit
			for h := 0; h < holes; h++ {
				lits = append(lits, maxsat.Var(name(v(p, h))))
			}
			cs = append(cs, maxsat.Constr{Lits: lits, AtLeast: 1, Weight: c.W[p]})
		}
		for h := 0; h < holes; h++ {
			if c.AtMost {
				var lits []maxsat.Lit
				for p := 0; p < pigeons; p++ {
					lits = append(lits, maxsat.Not(name(v(p, h))))
				}
				cs = append(cs, maxsat.Constr{Lits: lits, AtLeast: pigeons - 1})
				continue
			}
			for p := 0; p < pigeons; p++ {
				for q := p + 1; q < pigeons; q++ {
					cs = append(cs, maxsat.Constr{Lits: []maxsat.Lit{maxsat.Not(name(v(p, h))), maxsat.Not(name(v(q, h)))}, AtLeast: 1})
				}
			}
		}
		for p := 0; p < c.Fixed; p++ {
			cs = append(cs, maxsat.Constr{Lits: []maxsat.Lit{maxsat.Var(name(v(p, p)))}, AtLeast: 1})
		}
		if c.Banned > 0 {
			cs = append(cs, maxsat.Constr{Lits: []maxsat.Lit{maxsat.Var(name(n + 1)), maxsat.Var(name(n + 2)), maxsat.Var(name(n + 3))}, AtLeast: 1, Weight: c.Banned})
			for x := n + 1; x <= n+3; x++ {
				cs = append(cs, maxsat.Constr{Lits: []maxsat.Lit{maxsat.Not(name(x))}, AtLeast: 1})
			}
		}
		model, cost := maxsat.New(cs...).Solve()
		if model == nil {
			return fmt.Errorf("nil model (cost %d) although the hard constraints are satisfiable (optimum %d by construction)", cost, want)
		}
		if len(model) != nAll {
			return fmt.Errorf("the model binds %d names, the problem has %d variables", len(model), nAll)
		}
		got, err := seated(func(x int) bool { return model[name(x)] })
		if err != nil {
			return err
		}
		if got != cost || cost != want {
			return fmt.Errorf("reported cost %d, weight of the soft constraints the model violates %d, optimum %d by construction (weights %v)", cost, got, want, c.W)
		}
		return nil
	}
	var sb strings.Builder
	top := 1
	for _, w := range c.W {
		top += w
	}
	extra := 0
	if c.Banned > 0 {
		top += c.Banned
		extra = 4
	}
	fmt.Fprintf(&sb, "p wcnf %d %d %d\n", nAll, pigeons+holes*pigeons*(pigeons-1)/2+c.Fixed+extra, top)
	if c.Banned > 0 {
		fmt.Fprintf(&sb, "%d %d %d %d 0\n", c.Banned, n+1, n+2, n+3)
		for x := n + 1; x <= n+3; x++ {
			fmt.Fprintf(&sb, "%d -%d 0\n", top, x)
		}
	}
	for p := 0; p < c.Fixed; p++ {
		fmt.Fprintf(&sb, "%d %d 0\n", top, v(p, p))
	}
	for p := 0; p < pigeons; p++ {
		fmt.Fprintf(&sb, "%d", c.W[p])
		for h := 0; h < holes; h++ {
			fmt.Fprintf(&sb, " %d", v(p, h))
		}
		sb.WriteString(" 0\n")
	}
	for h := 0; h < holes; h++ {
		for p := 0; p < pigeons; p++ {
			for q := p + 1; q < pigeons; q++ {
				fmt.Fprintf(&sb, "%d -%d -%d 0\n", top, v(p, h), v(q, h))
			}
		}
	}
	s, err := maxsat.ParseWCNF(strings.NewReader(sb.String()))
	if err != nil {
		return fmt.Errorf("ParseWCNF rejects a well-formed text: %v", err)
	}
	var res solver.Result
	if c.Via == "wcnf-chan" {
		ch := make(chan solver.Result)
		done := make(chan struct{})
		go func() {
			for range ch {
			}
			close(done)
		}()
		res = s.Optimal(ch, nil)
		<-done
	} else {
		res = s.Optimal(nil, nil)
	}
	if res.Status != solver.Sat {
		return fmt.Errorf("Optimal = %v although the hard clauses are satisfiable (optimum %d by construction)", res.Status, want)
	}
	if len(res.Model) != nAll {
		return fmt.Errorf("the model has %d values, the file declares %d variables", len(res.Model), nAll)
	}
	got, err := seated(func(x int) bool { return res.Model[x-1] })
	if err != nil {
		return err
	}
	if got != res.Weight || res.Weight != want {
		return fmt.Errorf("reported cost %d, weight of the soft clauses the model violates %d, optimum %d by construction (weights %v)", res.Weight, got, want, c.W)
	}
	return nil
}

func genSoftPHP(t *rapid.T) SoftPHP {
	c := SoftPHP{Holes: rapid.SampledFrom([]int{5, 6, 6, 7}).Draw(t, "holes"), Via: rapid.SampledFrom([]string{"api", "api", "wcnf-nil", "wcnf-chan"}).Draw(t, "via"), AtMost: rapid.Bool().Draw(t, "atMost")}
	c.Fixed = rapid.IntRange(0, 2).Draw(t, "fixed")
	if rapid.Bool().Draw(t, "banned") {
		c.Banned = rapid.IntRange(1, 9).Draw(t, "bannedWeight")
	}
	unit := rapid.Bool().Draw(t, "unitWeights") // all weights 1: the bound on the cost collapses to unit clauses
	for p := 0; p <= c.Holes; p++ {
		w := 1
		if !unit {
			w = rapid.IntRange(1, 6).Draw(t, "w")
		}
		c.W = append(c.W, w)
	}
	return c
}

func init() {
	vf.Register(vf.Sub[SoftPHP]{Name: "soft-pigeonhole", Quick: 16, Thorough: 100, Gen: genSoftPHP, Check: checkSoftPHP, Floor: 0.9,
		Rule: "holes+1 pigeons in 5..7 holes: seating pigeon p is a soft clause of weight W[p] (all 1, or drawn in 1..6), sharing a hole is forbidden by hard clauses (or by one hard cardinality constraint per hole); through maxsat.New(...).Solve() and through ParseWCNF + Optimal(nil) / Optimal(chan); 0..2 pigeons are seated by hard unit clauses, and in half of the cases one more soft clause is falsified by hard unit clauses (its weight is always paid); the optimum is the smallest weight among the other pigeons by construction and proving it takes hundreds to thousands of conflicts (restarts, reductions) after the first models were found; asserted: model over exactly the problem's variables, hard constraints satisfied, reported cost = weight of the violated soft clauses = optimum"})
}
