//go:build verif

// C11 — solving a boolean formula agrees with its truth table.
package c11

import (
	"errors"
	"fmt"
	"strings"
	"testing"

	"github.com/crillab/gophersat/bf"
	"pgregory.net/rapid"
	"verifharness/bfx"
	"verifharness/gen"
	"verifharness/gs"
	"verifharness/oracle"
	"verifharness/vf"
)

type Case struct {
	F *oracle.F `json:"f"`
}

func classify(f *oracle.F, o *vf.Obs) {
	var refs func(g *oracle.F) bool
	refs = func(g *oracle.F) bool {
		if g.Op == "ref" {
			return true
		}
		for _, k := range g.Kids {
			if refs(k) {
				return true
			}
		}
		return false
	}
	o.ClassIf(refs(f), "shares-an-object")
	f.Walk(1, func(g *oracle.F, pol int) {
		switch g.Op {
		case "and", "or":
			o.ClassIf(len(g.Kids) == 0, "empty-"+g.Op)
		case "true", "false":
			o.Class("constants")
		case "unique":
			o.ClassIf(len(g.Kids) > 4 && pol == 1, "big-group-positive")
			o.ClassIf(len(g.Kids) > 4 && pol != 1, "big-group-negated")
			o.ClassIf(len(g.Kids) <= 4, "small-group")
		}
	})
}

// nested: a conjunction under a disjunction somewhere (an auxiliary variable is introduced).
func hasAndUnderOr(f *oracle.F) bool {
	found := false
	var walk func(g *oracle.F, underOr bool, pol int)
	walk = func(g *oracle.F, underOr bool, pol int) {
		isAnd := g.Op == "and" && pol >= 0 || g.Op == "or" && pol <= 0 || g.Op == "eq" || g.Op == "xor" || g.Op == "unique"
		isOr := g.Op == "or" && pol >= 0 || g.Op == "and" && pol <= 0 || g.Op == "implies" || g.Op == "eq" || g.Op == "xor"
		if underOr && isAnd && len(g.Kids) >= 2 {
			found = true
		}
		switch g.Op {
		case "not":
			walk(g.Kids[0], underOr, -pol)
		case "implies":
			walk(g.Kids[0], true, -pol)
			walk(g.Kids[1], true, pol)
		case "eq", "xor":
			walk(g.Kids[0], true, 0)
			walk(g.Kids[1], true, 0)
		case "unique":
		default:
			for _, k := range g.Kids {
				walk(k, underOr || isOr, pol)
			}
		}
	}
	walk(f, false, 1)
	return found
}

// check wraps check0: a failure on a formula that holds an exactly-one group of more than 4 names
// at a non-positive polarity carries the signature of the open finding c11-negated-big-unique.
func check(c Case, o *vf.Obs) error {
	c.F.Link()
	err := vf.Safely(func() error { return check0(c, o) })
	if err == nil || errors.Is(err, vf.ErrInconclusive) {
		return err
	}
	neg := false
	c.F.Walk(1, func(g *oracle.F, pol int) {
		if g.Op == "unique" && len(g.Kids) > 4 && pol != 1 {
			neg = true
		}
	})
	if neg {
		return fmt.Errorf("[big-unique-negated] %v", err)
	}
	return err
}

func check0(c Case, o *vf.Obs) error {
	c.F.Link()
	gs.Arm(0, gs.DefaultStepLimit)
	defer gs.Arm(0, 0)
	classify(c.F, o)
	names := c.F.Vars()
	if len(names) > 14 {
		return fmt.Errorf("%w: too many names", vf.ErrInconclusive)
	}
	models := oracle.FormulaModels(c.F, names)
	hasGroup := false
	c.F.Walk(1, func(g *oracle.F, _ int) {
		if g.Op == "unique" {
			hasGroup = true
		}
	})
	if hasAndUnderOr(c.F) || hasGroup {
		o.Nontrivial()
	}
	o.ClassIf(len(models) == 0, "unsat")
	o.ClassIf(len(models) == 1<<uint(len(names)), "valid")
	got := bf.Solve(bfx.Build(c.F))
	if got == nil {
		if len(models) > 0 {
			return fmt.Errorf("Solve returned no model but the formula %v is satisfiable (e.g. %v)", c.F, oracle.EnvOf(names, models[0]))
		}
		return nil
	}
	if len(models) == 0 {
		return fmt.Errorf("Solve returned %v but the formula %v is false under every assignment", got, c.F)
	}
	// complete the returned assignment in every way on the names it omits
	var omitted []string
	env := map[string]bool{}
	for _, n := range names {
		if b, ok := got[n]; ok {
			env[n] = b
		} else {
			omitted = append(omitted, n)
		}
	}
	o.ClassIf(len(omitted) > 0, "model-omits-names")
	for m := uint64(0); m < 1<<uint(len(omitted)); m++ {
		for i, n := range omitted {
			env[n] = m>>uint(i)&1 == 1
		}
		if !c.F.Eval(env) {
			return fmt.Errorf("returned assignment %v (completed with %v on the omitted names) makes the formula %v false", got, env, c.F)
		}
	}
	return nil
}

func genCase(bigPosOnly bool) func(t *rapid.T) Case {
	return func(t *rapid.T) Case {
		names := gen.Names(t, gen.Uniform(t, 1, 7, "names"))
		if gen.Chance(t, 1, 4, "manyNames") {
			names = gen.Names(t, 9)
		}
		return Case{F: gen.Formula(t, gen.FormulaOpts{MaxDepth: rapid.IntRange(1, 5).Draw(t, "depth"), Names: names, MaxGroup: 9, BigGroupsPos: bigPosOnly, Groups: &[][]string{}}, 0, 1)}
	}
}

func genShared(t *rapid.T) Case {
	names := gen.Names(t, gen.Uniform(t, 2, 7, "names"))
	f := gen.Formula(t, gen.FormulaOpts{MaxDepth: rapid.IntRange(2, 5).Draw(t, "depth"), Names: names, MaxGroup: 7, Groups: &[][]string{}, Shared: &[]*oracle.F{}}, 0, 1)
	return Case{F: f}
}

// printed mimics how the library prints a formula made of variables, not, and, or.
func printed(f *oracle.F) string {
	switch f.Op {
	case "var":
		return f.Name
	case "not":
		return "not(" + printed(f.Kids[0]) + ")"
	}
	parts := make([]string, len(f.Kids))
	for i, k := range f.Kids {
		parts[i] = printed(k)
	}
	return f.Op + "(" + strings.Join(parts, ", ") + ")"
}

// genLookalike: two sub-formulas that print alike but differ, because one of them uses a variable whose *name* is
// the printed form of a piece of the other ("a, b", "not(a)", "and(a, b)" are legal names for bf.Var). Anything that
// identifies sub-formulas by their printed form confuses them.
func genLookalike(t *rapid.T) Case {
	base := []string{"a", "b", "c", "d", "e"}
	lit := func() *oracle.F {
		v := oracle.V(base[gen.Uniform(t, 0, len(base)-1, "v")])
		if gen.Chance(t, 1, 3, "neg") {
			return &oracle.F{Op: "not", Kids: []*oracle.F{v}}
		}
		return v
	}
	var tree func(depth int) *oracle.F
	tree = func(depth int) *oracle.F {
		f := &oracle.F{Op: rapid.SampledFrom([]string{"and", "or"}).Draw(t, "op")}
		for i, k := 0, gen.Uniform(t, 2, 3, "arity"); i < k; i++ {
			if depth < 2 && gen.Chance(t, 1, 4, "deeper") {
				f.Kids = append(f.Kids, tree(depth+1))
			} else {
				f.Kids = append(f.Kids, lit())
			}
		}
		return f
	}
	orig := tree(0)
	// the twin: a deep copy with one piece replaced by a variable named like the piece's printed form
	var nodes []*oracle.F
	var clone func(f *oracle.F) *oracle.F
	clone = func(f *oracle.F) *oracle.F {
		g := &oracle.F{Op: f.Op, Name: f.Name}
		for _, k := range f.Kids {
			g.Kids = append(g.Kids, clone(k))
		}
		if g.Op != "var" {
			nodes = append(nodes, g)
		}
		return g
	}
	twin := clone(orig)
	at := nodes[gen.Uniform(t, 0, len(nodes)-1, "at")]
	how := "whole"
	if (at.Op == "and" || at.Op == "or") && (at != twin || len(at.Kids) > 2) && rapid.Bool().Draw(t, "merge") {
		i := gen.Uniform(t, 0, len(at.Kids)-2, "first")
		merged := oracle.V(printed(at.Kids[i]) + ", " + printed(at.Kids[i+1]))
		at.Kids = append(append(append([]*oracle.F{}, at.Kids[:i]...), merged), at.Kids[i+2:]...)
		how = "merge"
	} else if at == twin {
		// replacing the whole twin by a variable is fine too: and(a, b) against the variable "and(a, b)"
		*at = *oracle.V(printed(at))
	} else {
		*at = *oracle.V(printed(at))
	}
	_ = how
	g1, g2 := oracle.V("p"), oracle.V("q")
	not := func(f *oracle.F) *oracle.F { return &oracle.F{Op: "not", Kids: []*oracle.F{f}} }
	var f *oracle.F
	switch rapid.IntRange(0, 4).Draw(t, "frame") {
	case 0:
		f = &oracle.F{Op: "and", Kids: []*oracle.F{{Op: "or", Kids: []*oracle.F{orig, g1}}, {Op: "or", Kids: []*oracle.F{twin, g2}}, not(g1), not(g2), lit()}}
	case 1:
		f = &oracle.F{Op: "and", Kids: []*oracle.F{{Op: "or", Kids: []*oracle.F{twin, g1}}, {Op: "or", Kids: []*oracle.F{orig, g2}}, not(g1), not(g2), not(lit())}}
	case 2:
		f = &oracle.F{Op: "or", Kids: []*oracle.F{{Op: "and", Kids: []*oracle.F{orig, g1}}, {Op: "and", Kids: []*oracle.F{twin, g2}}}}
	case 3:
		f = &oracle.F{Op: "and", Kids: []*oracle.F{{Op: "xor", Kids: []*oracle.F{orig, twin}}, lit()}}
	default:
		f = &oracle.F{Op: "and", Kids: []*oracle.F{{Op: "or", Kids: []*oracle.F{orig, g1}}, {Op: "or", Kids: []*oracle.F{not(twin), g1}}, {Op: "implies", Kids: []*oracle.F{g1, lit()}}}}
	}
	return Case{F: f}
}

// genJoinColliding: two exactly-one groups of the same width (5..7) over *different* name lists that give the same
// string when joined with "-" ("a-b","c",... against "a","b-c",...: a name may contain any character). Anything that
// identifies a group by its joined names confuses the two.
func genJoinColliding(t *rapid.T) Case {
	atoms := []string{"a", "b", "c", "d", "e", "f", "g", "h"}
	k := gen.Uniform(t, 5, 7, "width")
	sep := rapid.SampledFrom([]string{"-", "-", "-", ", ", "_"}).Draw(t, "sep")
	merged := func(at int) []string {
		var ns []string
		for i := 0; i <= k; i++ {
			if i == at {
				ns = append(ns, atoms[i]+sep+atoms[i+1])
				i++
			} else {
				ns = append(ns, atoms[i])
			}
		}
		return ns
	}
	i := gen.Uniform(t, 0, k-1, "mergeAt1")
	j := gen.Uniform(t, 0, k-2, "mergeAt2")
	if j >= i {
		j++
	}
	n1, n2 := merged(i), merged(j)
	group := func(ns []string) *oracle.F {
		g := &oracle.F{Op: "unique"}
		for _, n := range ns {
			g.Kids = append(g.Kids, oracle.V(n))
		}
		return g
	}
	g1, g2 := group(n1), group(n2)
	not := func(f *oracle.F) *oracle.F { return &oracle.F{Op: "not", Kids: []*oracle.F{f}} }
	pick := func(ns []string, label string) *oracle.F {
		v := oracle.V(ns[gen.Uniform(t, 0, len(ns)-1, label)])
		if gen.Chance(t, 1, 5, label+"Neg") {
			return not(v)
		}
		return v
	}
	var kids []*oracle.F
	switch rapid.IntRange(0, 3).Draw(t, "frame") {
	case 0:
		kids = []*oracle.F{g1, g2}
	case 1:
		kids = []*oracle.F{g2, g1}
	case 2:
		kids = []*oracle.F{{Op: "or", Kids: []*oracle.F{g1, oracle.V("p")}}, {Op: "or", Kids: []*oracle.F{g2, oracle.V("q")}}, not(oracle.V("p")), not(oracle.V("q"))}
	default:
		kids = []*oracle.F{{Op: "eq", Kids: []*oracle.F{g1, g2}}, {Op: "or", Kids: []*oracle.F{g1, g2}}}
	}
	for n, m := 0, gen.Uniform(t, 0, 3, "aims"); n < m; n++ {
		if rapid.Bool().Draw(t, "from1") {
			kids = append(kids, pick(n1, "m1"))
		} else {
			kids = append(kids, pick(n2, "m2"))
		}
	}
	return Case{F: &oracle.F{Op: "and", Kids: kids}}
}

// WideCase: a formula with exactly-one groups of 10..40 names. All but a dozen of its names are fixed by literals
// conjoined at top level, so that satisfiability is decided by enumerating the free names only.
type WideCase struct {
	F     *oracle.F       `json:"f"`     // and(core, literal of each fixed name)
	Fixed map[string]bool `json:"fixed"` // the fixed names and their values
}

func genWide(t *rapid.T) WideCase {
	nb := gen.Uniform(t, 12, 45, "names")
	names := gen.NamePool(nb)
	group := func() *oracle.F {
		k := gen.Uniform(t, 10, min(40, nb), "width")
		perm := rapid.Permutation(append([]string{}, names...)).Draw(t, "members")
		g := &oracle.F{Op: "unique"}
		for _, n := range perm[:k] {
			g.Kids = append(g.Kids, oracle.V(n))
		}
		return g
	}
	lit := func() *oracle.F {
		v := oracle.V(names[gen.Uniform(t, 0, nb-1, "v")])
		if rapid.Bool().Draw(t, "neg") {
			return &oracle.F{Op: "not", Kids: []*oracle.F{v}}
		}
		return v
	}
	small := func() *oracle.F {
		return &oracle.F{Op: rapid.SampledFrom([]string{"or", "and", "implies", "xor", "eq"}).Draw(t, "op"), Kids: []*oracle.F{lit(), lit()}}
	}
	var core *oracle.F
	switch rapid.IntRange(0, 5).Draw(t, "shape") {
	case 0:
		core = group()
	case 1:
		core = &oracle.F{Op: "not", Kids: []*oracle.F{group()}}
	case 2:
		core = &oracle.F{Op: "and", Kids: []*oracle.F{group(), group(), small()}}
	case 3:
		core = &oracle.F{Op: "or", Kids: []*oracle.F{{Op: "and", Kids: []*oracle.F{group(), small()}}, {Op: "and", Kids: []*oracle.F{{Op: "not", Kids: []*oracle.F{group()}}, small()}}}}
	case 4:
		core = &oracle.F{Op: "eq", Kids: []*oracle.F{group(), small()}}
	default:
		core = &oracle.F{Op: "implies", Kids: []*oracle.F{small(), {Op: "and", Kids: []*oracle.F{group(), {Op: "not", Kids: []*oracle.F{group()}}}}}}
	}
	used := core.Vars()
	perm := rapid.Permutation(append([]string{}, used...)).Draw(t, "free")
	nFree := gen.Uniform(t, 2, 11, "nFree")
	c := WideCase{Fixed: map[string]bool{}}
	all := &oracle.F{Op: "and", Kids: []*oracle.F{core}}
	for i, n := range perm {
		if i < nFree {
			continue
		}
		val := gen.Chance(t, 1, 12, "fixedTrue")
		c.Fixed[n] = val
		if val {
			all.Kids = append(all.Kids, oracle.V(n))
		} else {
			all.Kids = append(all.Kids, &oracle.F{Op: "not", Kids: []*oracle.F{oracle.V(n)}})
		}
	}
	c.F = all
	return c
}

func min(a, b int) int {
	if a < b {
		return a
	}
	return b
}

func checkWide(c WideCase, o *vf.Obs) error {
	gs.Arm(0, gs.DefaultStepLimit)
	defer gs.Arm(0, 0)
	classify(c.F, o)
	var free []string
	for _, n := range c.F.Vars() {
		if _, ok := c.Fixed[n]; !ok {
			free = append(free, n)
		}
	}
	if len(free) > 14 {
		return fmt.Errorf("%w: too many free names", vf.ErrInconclusive)
	}
	widest := 0
	c.F.Walk(1, func(g *oracle.F, _ int) {
		if g.Op == "unique" && len(g.Kids) > widest {
			widest = len(g.Kids)
		}
	})
	o.ClassIf(widest >= 17, "group>=17-names")
	o.ClassIf(widest >= 26, "group>=26-names")
	o.Nontrivial()
	env := map[string]bool{}
	for n, v := range c.Fixed {
		env[n] = v
	}
	var witness map[string]bool
	nbModels := 0
	for m := uint64(0); m < 1<<uint(len(free)); m++ {
		for i, n := range free {
			env[n] = m>>uint(i)&1 == 1
		}
		if c.F.Eval(env) {
			nbModels++
			if witness == nil {
				witness = map[string]bool{}
				for k, v := range env {
					witness[k] = v
				}
			}
		}
	}
	o.ClassIf(nbModels == 0, "unsat")
	o.ClassIf(nbModels > 0, "sat")
	got := bf.Solve(bfx.Build(c.F))
	if got == nil {
		if nbModels > 0 {
			return fmt.Errorf("Solve returned no model but the formula %v is satisfiable (e.g. %v)", c.F, witness)
		}
		return nil
	}
	if nbModels == 0 {
		return fmt.Errorf("Solve returned %v but the formula %v is false under every assignment", got, c.F)
	}
	// names the model omits are completed in a few fixed ways (all false, all true, alternating)
	for variant := 0; variant < 4; variant++ {
		i := 0
		for _, n := range c.F.Vars() {
			if b, ok := got[n]; ok {
				env[n] = b
				continue
			}
			env[n] = variant == 1 || variant == 2 && i%2 == 0 || variant == 3 && i%2 == 1
			i++
		}
		if !c.F.Eval(env) {
			return fmt.Errorf("returned assignment %v (completed with %v on the omitted names) makes the formula %v false", got, env, c.F)
		}
	}
	return nil
}

func init() {
	vf.Register(vf.Sub[Case]{Name: "lookalike-names", Quick: 5000, Thorough: 60000, Gen: genLookalike, Check: check, Floor: 0.5,
		Rule: "a small and/or/not formula and a twin in which one piece is replaced by a single variable whose name is that piece's printed form (\"a, b\", \"not(a)\", \"and(a, b)\": legal names for bf.Var), put side by side under disjunctions, conjunctions, xor or implications with guard variables; <= 10 names; same oracle as trees"})
}

func init() {
	vf.Register(vf.Sub[Case]{Name: "join-colliding-groups", Quick: 4000, Thorough: 40000, Gen: genJoinColliding, Check: check, Floor: 0.9,
		Classes: map[string]float64{"unsat": 0.1},
		Rule:    "two exactly-one groups of 5..7 names whose name lists differ but give the same string when joined with \"-\" (\"a-b\",\"c\",.. against \"a\",\"b-c\",..), conjoined, under guarded disjunctions or under an equivalence, with 0..3 literals on members that aim at single models; <= 12 names; same oracle as trees"})
}

func init() {
	vf.Register(vf.Sub[WideCase]{Name: "wide-groups", Quick: 4000, Thorough: 60000, Gen: genWide, Check: checkWide, Floor: 0.9,
		Classes: map[string]float64{"group>=17-names": 0.3, "sat": 0.15, "unsat": 0.15},
		Rule:    "exactly-one groups of 10..40 names (the translation of a group changes shape with its width), alone, negated, two in a conjunction, under a disjunction, under an equivalence, contradictory pair under an implication, next to two-literal sub-formulas; all names but 2..11 are fixed by literals conjoined at top level, so satisfiability is decided exactly by enumerating the free names; same assertions as trees (names omitted by the model are completed in four fixed ways)"})
}

func init() {
	vf.Register(vf.Sub[Case]{Name: "shared-subformulas", Quick: 20000, Thorough: 100000, Gen: genShared, Check: check, Floor: 0.4, Journal: true,
		Classes: map[string]float64{"shares-an-object": 0.3},
		Rule:    "formula DAGs: a sub-formula object built once is used at several places (a fifth of the positions reuse an earlier sub-formula, often as first operand of a disjunction or premise of an implication), the way callers build rule sets from shared pieces; same oracle; non-trivial as above"})
}

func init() {
	vf.Register(
		vf.Sub[Case]{Name: "trees", Quick: 30000, Thorough: 120000, Gen: genCase(true), Check: check, Floor: 0.4,
			Rule: "formula trees of depth <=5 over <=9 names: variables, constants, not, n-ary and/or with 0..4 children, implies, eq, xor, exactly-one groups of 1..9 distinct names (groups of >4 names only at positive polarity in this sub-check); oracle = own evaluator over all assignments; nil <=> unsatisfiable, returned assignment completed in every way on omitted names satisfies the formula; non-trivial = a conjunction nested under a disjunction (auxiliary variable) or an exactly-one group"},
	)
	vf.Register(
		vf.Sub[Case]{Name: "trees-any-polarity", Quick: 20000, Thorough: 100000, Gen: genCase(false), Check: check, Floor: 0.4,
			Rule: "same trees with exactly-one groups of any size at any polarity; a failure on a formula that holds a group of >4 names at a non-positive polarity is tagged [big-unique-negated] (the signature of the finding c11-negated-big-unique, fixed since: the tag suppresses nothing)"},
	)
}

func TestMain(m *testing.M)   { vf.Main(m, "C11") }
func TestCorpus(t *testing.T) { vf.Corpus(t) }
func TestProp(t *testing.T)   { vf.RunAll(t) }
func TestReplay(t *testing.T) { vf.ReplayEnv(t) }

// native fuzz targets (thorough tier): the fuzzer mutates the byte stream that rapid decodes into generator choices
func FuzzTrees(f *testing.F)  { vf.FuzzNamed(f, "C11", "trees-any-polarity") }
func FuzzShared(f *testing.F) { vf.FuzzNamed(f, "C11", "shared-subformulas") }
