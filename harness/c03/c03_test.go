//go:build verif

// C03 — the reported optimum is the true minimum of the cost function.
package c03

import (
	"fmt"
	"testing"

	"github.com/crillab/gophersat/solver"
	"pgregory.net/rapid"
	"verifharness/gen"
	"verifharness/gs"
	"verifharness/oracle"
	"verifharness/texts"
	"verifharness/vf"
)

type Case struct {
	Front   string       `json:"front"` // cnf | pb | card | opb
	N       int          `json:"n"`     // declared variables (cnf) / highest variable (others)
	Clauses [][]int      `json:"clauses,omitempty"`
	Constrs []gen.PC     `json:"constrs,omitempty"`
	Cost    *oracle.Cost `json:"cost,omitempty"` // nil = no cost function
	Family  string       `json:"family,omitempty"`
	CP      bool         `json:"cp,omitempty"` // the three solvers use the cutting-planes strategy
}

func lits(xs []int) []solver.Lit {
	out := make([]solver.Lit, len(xs))
	for i, x := range xs {
		out[i] = solver.IntToLit(int32(x))
	}
	return out
}

// build returns a fresh problem and the cost function actually installed.
func build(c Case) (*solver.Problem, *oracle.Cost, error) {
	var pb *solver.Problem
	switch c.Front {
	case "cnf":
		pb = solver.ParseSliceNb(oracle.CloneCNF(c.Clauses), c.N)
	case "pb":
		cs := gs.PBConstrsOf(c.Constrs)
		// declare the highest variable with a trivially true single-literal constraint
		// (ParsePBConstrs counts its variable and then drops it)
		cs = append(cs, solver.GtEq([]int{c.N}, []int{1}, 0))
		pb = solver.ParsePBConstrs(cs)
	case "card":
		pb = solver.ParseCardConstrs(gs.CardConstrsOf(c.Constrs))
	case "opb":
		txt := texts.OPB(c.Cost, gen.Sems(c.Constrs), texts.OPBLayout{})
		p, err := solver.ParseOPB(texts.ReaderFor(txt))
		if err != nil {
			return nil, nil, fmt.Errorf("ParseOPB rejects a well-formed text: %v\n%s", err, txt)
		}
		return p, c.Cost, nil
	}
	cost := c.Cost
	if cost != nil && pb.Status != solver.Unsat {
		// a cost literal must be a variable of the problem: drop those the front-end never counted
		// (possible with ParseCardConstrs only, which ignores trivially true constraints)
		f := oracle.Cost{}
		for i, l := range cost.Lits {
			v := l
			if v < 0 {
				v = -v
			}
			if v <= pb.NbVars {
				f.Lits = append(f.Lits, l)
				if cost.W != nil {
					f.W = append(f.W, cost.W[i])
				}
			}
		}
		if cost.W != nil && f.W == nil {
			f.W = []int{}
		}
		cost = &f
		if len(cost.Lits) == 0 {
			cost = nil
		} else {
			var w []int
			if cost.W != nil {
				w = append([]int{}, cost.W...)
			}
			pb.SetCostFunc(lits(cost.Lits), w)
		}
	}
	return pb, cost, nil
}

func check(c Case, o *vf.Obs) error {
	gs.Arm(0, gs.DefaultStepLimit)
	defer gs.Arm(0, 0)
	o.Class("front-" + c.Front)
	o.ClassIf(c.Family != "", "family-"+c.Family)
	var sems []oracle.Constr
	if c.Front == "cnf" {
		for _, cl := range c.Clauses {
			sems = append(sems, oracle.Clause(cl...))
		}
	} else {
		sems = gen.Sems(c.Constrs)
	}
	pb, cost, err := build(c)
	if err != nil {
		return err
	}
	n := c.N
	if mv := oracle.MaxVarConstrs(sems); mv > n {
		n = mv
	}
	costOf := func(m uint64) int {
		if cost == nil {
			return 0
		}
		return cost.Of(m)
	}
	signed := false
	if cost != nil {
		o.ClassIf(cost.W == nil, "cost-nil-weights")
		for _, w := range cost.W {
			if w < 0 {
				signed = true
			}
		}
		o.ClassIf(signed, "cost-negative-coef")
	} else {
		o.Class("no-cost-function")
	}
	best, feasible, distinct := oracle.Minimum(n, func(m uint64) bool { return oracle.AllTrue(sems, m) }, costOf)
	o.ClassIf(!feasible, "unsat")
	o.ClassIf(feasible && best > 0, "optimum>0")

	validate := func(what string, st solver.Status, model []bool, weight int) error {
		if !feasible {
			if st != solver.Unsat {
				return fmt.Errorf("%s: status %v but the constraints are unsatisfiable", what, st)
			}
			return nil
		}
		if st != solver.Sat {
			return fmt.Errorf("%s: status %v but the constraints are satisfiable (minimum %d)", what, st, best)
		}
		if len(model) != pb.NbVars {
			return fmt.Errorf("%s: model has %d values, problem has %d variables", what, len(model), pb.NbVars)
		}
		m := oracle.MaskOf(model)
		if i := oracle.FirstFalse(sems, m); i >= 0 {
			return fmt.Errorf("%s: model %v violates constraint #%d: %v", what, model, i, sems[i])
		}
		if got := costOf(m); got != weight {
			return fmt.Errorf("%s: reported cost %d but the cost function evaluates to %d on the returned model %v", what, weight, got, model)
		}
		if weight != best {
			return fmt.Errorf("%s: reported optimum %d, true minimum %d", what, weight, best)
		}
		return nil
	}

	// 1. Optimal(nil, nil)
	s1 := solver.New(pb)
	s1.CuttingPlanes = c.CP
	o.ClassIf(c.CP, "cutting-planes")
	r1 := s1.Optimal(nil, nil)
	if err := validate("Optimal(nil)", r1.Status, r1.Model, r1.Weight); err != nil {
		return err
	}
	// 2. Optimal(chan, nil): producer here, consumer in a goroutine
	pb2, _, _ := build(c)
	s2 := solver.New(pb2)
	s2.CuttingPlanes = c.CP
	ch := make(chan solver.Result)
	var stream []solver.Result
	done := make(chan struct{})
	go func() {
		for r := range ch {
			stream = append(stream, r)
		}
		close(done)
	}()
	var r2 solver.Result
	perr := vf.Safely(func() error { r2 = s2.Optimal(ch, nil); return nil })
	if perr != nil {
		func() { defer func() { recover() }(); close(ch) }()
		<-done
		return perr
	}
	<-done
	if err := validate("Optimal(chan)", r2.Status, r2.Model, r2.Weight); err != nil {
		return err
	}
	o.ClassIf(len(stream) >= 2, "stream-len>=2")
	o.ClassIf(len(stream) >= 3, "stream-len>=3")
	if len(stream) >= 2 || (feasible && best > 0 && distinct >= 2) {
		o.Nontrivial()
	}
	// 3. Minimize() + Model(); its -1 convention is only meaningful for non-negative costs
	if !signed {
		pb3, _, _ := build(c)
		s3 := solver.New(pb3)
		s3.CuttingPlanes = c.CP
		got := s3.Minimize()
		if !feasible {
			if got != -1 {
				return fmt.Errorf("Minimize = %d on unsatisfiable constraints, want -1", got)
			}
		} else {
			if got == -1 {
				return fmt.Errorf("Minimize = -1 but the constraints are satisfiable (minimum %d)", best)
			}
			if err := validate("Minimize+Model", solver.Sat, s3.Model(), got); err != nil {
				return err
			}
		}
	}
	return nil
}

func genUniform(front string) func(t *rapid.T) Case {
	inner := genUniform0(front)
	return func(t *rapid.T) Case {
		c := inner(t)
		c.CP = gen.Chance(t, 1, 4, "cuttingPlanes")
		return c
	}
}

func genUniform0(front string) func(t *rapid.T) Case {
	return func(t *rapid.T) Case {
		c := Case{Front: front, Family: "uniform"}
		switch front {
		case "cnf":
			c.N, c.Clauses = gen.SmallCNF(t, gen.CNFOpts{MinN: 1, MaxN: 10, MaxRatio: 3, MaxLen: 4, AllowDup: true, AllowUnit: true, UnusedVarSlack: true})
		default:
			c.N, c.Constrs = gen.PBConstrs(t, gen.PBOpts{MinN: 1, MaxN: 10, MaxConstrs: 6, MaxArity: 6, Card: front == "card"})
		}
		if front == "opb" {
			// OPB has no "<=" helper kinds problem: every kind maps to >= / = through the writer
			if !gen.Chance(t, 1, 8, "noCost") {
				cf := gen.CostFunc(t, c.N, true)
				if cf.W == nil {
					cf.W = make([]int, len(cf.Lits))
					for i := range cf.W {
						cf.W[i] = 1
					}
				}
				c.Cost = &cf
			}
			return c
		}
		if !gen.Chance(t, 1, 8, "noCost") {
			cf := gen.CostFunc(t, c.N, false)
			c.Cost = &cf
		}
		return c
	}
}

func genCovering(t *rapid.T) Case {
	c := genCovering0(t)
	c.CP = gen.Chance(t, 1, 4, "cuttingPlanes")
	return c
}

func genCovering0(t *rapid.T) Case {
	switch rapid.IntRange(0, 3).Draw(t, "family") {
	case 0, 1:
		n, cls, cost := gen.VertexCover(t, 6, 14)
		return Case{Front: "cnf", N: n, Clauses: cls, Cost: &cost, Family: "vertex-cover"}
	case 2:
		n, ps, cost := gen.SetCover(t, 6, 12)
		front := rapid.SampledFrom([]string{"pb", "opb"}).Draw(t, "front")
		return Case{Front: front, N: n, Constrs: ps, Cost: &cost, Family: "set-cover"}
	default:
		// at least k of the cost literals must be true, plus a few clauses
		n := gen.Uniform(t, 4, 10, "n")
		cf := gen.CostFunc(t, n, false)
		k := gen.Uniform(t, 1, len(cf.Lits), "k")
		ps := []gen.PC{{Kind: "atleast", Lits: append([]int{}, cf.Lits...), K: k}}
		for i, m := 0, rapid.IntRange(0, 4).Draw(t, "extra"); i < m; i++ {
			ps = append(ps, gen.PC{Kind: "clause", Lits: gen.DistinctLits(t, n, min(3, n), "x")})
		}
		front := rapid.SampledFrom([]string{"pb", "card", "opb"}).Draw(t, "front")
		if front == "opb" && cf.W == nil {
			cf.W = make([]int, len(cf.Lits))
			for i := range cf.W {
				cf.W[i] = 1
			}
		}
		return Case{Front: front, N: n, Constrs: ps, Cost: &cf, Family: "atleast-k-of-cost"}
	}
}

func min(a, b int) int {
	if a < b {
		return a
	}
	return b
}

func init() {
	tail := "; a quarter of the cases under the cutting-planes strategy; oracle = brute-force minimum over all assignments; Optimal(nil), Optimal(chan) and (non-negative costs) Minimize+Model each on a fresh solver; non-trivial = result stream of length >=2, or optimum >0 with >=2 distinct feasible costs"
	vf.Register(
		vf.Sub[Case]{Name: "uniform-cnf", Quick: 6000, Thorough: 48000, Gen: genUniform("cnf"), Check: check, Floor: 0.07,
			Rule: "random CNF (n<=10) with a cost function over distinct variables, either polarity, weights 0..9 or nil" + tail},
		vf.Sub[Case]{Name: "uniform-pb", Quick: 6000, Thorough: 48000, Gen: genUniform("pb"), Check: check, Floor: 0.07,
			Rule: "random PB constraints via ParsePBConstrs with a cost function" + tail},
		vf.Sub[Case]{Name: "uniform-card", Quick: 6000, Thorough: 48000, Gen: genUniform("card"), Check: check, Floor: 0.07,
			Rule: "random cardinality constraints via ParseCardConstrs with a cost function" + tail},
		vf.Sub[Case]{Name: "uniform-opb", Quick: 6000, Thorough: 48000, Gen: genUniform("opb"), Check: check, Floor: 0.07,
			Rule: "random PB problems rendered to OPB text (conventional layout) with a min: line whose coefficients have either sign, via ParseOPB" + tail},
		vf.Sub[Case]{Name: "covering", Quick: 8000, Thorough: 60000, Gen: genCovering, Check: check, Floor: 0.5,
			Classes: map[string]float64{"stream-len>=2": 0.12},
			Rule:    "covering-style instances whose first model is usually sub-optimal: weighted vertex cover (CNF), set cover with PB rows (ParsePBConstrs / OPB), 'at least k of the cost literals' (PB / card / OPB)" + tail},
	)
}

func TestMain(m *testing.M)   { vf.Main(m, "C03") }
func TestCorpus(t *testing.T) { vf.Corpus(t) }
func TestProp(t *testing.T)   { vf.RunAll(t) }
func TestReplay(t *testing.T) { vf.ReplayEnv(t) }

// native fuzz targets (thorough tier): the fuzzer mutates the byte stream that rapid decodes into generator choices
func FuzzUniformPB(f *testing.F) { vf.FuzzNamed(f, "C03", "uniform-pb") }
func FuzzCovering(f *testing.F)  { vf.FuzzNamed(f, "C03", "covering") }

// ---- optimisation with restarts inside: soft pigeonhole, optimum known by construction ------------------

// SoftPHP: holes+1 pigeons, holes holes. "Pigeon p sits somewhere" may be given up at a price W[p] (a relaxation
// variable r_p in its clause, the cost function is the weighted sum of the r_p); "two pigeons never share a hole" is
// hard. Forced lists extra cost literals fixed by unit clauses (always paid). One pigeon at least has to be
// given up, so the optimum is the smallest weight plus the fixed costs. Proving
// it takes hundreds to thousands of conflicts: restarts and clause-database reductions happen between two improvements.
type SoftPHP struct {
	Holes  int    `json:"holes"`
	W      []int  `json:"w"`
	Forced []int  `json:"forced,omitempty"`
	Entry  string `json:"entry"` // optimal-nil | optimal-chan | minimize
	NbMax  int    `json:"nbmax,omitempty"`
}

func checkSoftPHP(c SoftPHP, o *vf.Obs) error {
	gs.Arm(c.NbMax, 300_000_000)
	defer gs.Arm(0, 0)
	holes, pigeons := c.Holes, c.Holes+1
	n := pigeons * holes
	v := func(p, h int) int { return p*holes + h + 1 }
	r := func(p int) int { return n + p + 1 }
	var cls [][]int
	for p := 0; p < pigeons; p++ {
		cl := []int{r(p)}
		for h := 0; h < holes; h++ {
			cl = append(cl, v(p, h))
		}
		cls = append(cls, cl)
	}
	for h := 0; h < holes; h++ {
		for p := 0; p < pigeons; p++ {
			for q := p + 1; q < pigeons; q++ {
				cls = append(cls, []int{-v(p, h), -v(q, h)})
			}
		}
	}
	// extra cost literals fixed by unit clauses: u_k (Forced[k] > 0: the unit clause u_k, cost on u_k) or
	// (Forced[k] < 0: the unit clause not u_k, cost on not u_k), weight |Forced[k]|: always paid
	want := c.W[0]
	for _, w := range c.W {
		if w < want {
			want = w
		}
	}
	var lits []solver.Lit
	weights := append([]int{}, c.W...)
	for p := 0; p < pigeons; p++ {
		lits = append(lits, solver.IntToLit(int32(r(p))))
	}
	nv := n + pigeons
	var fixed [][2]int // literal, weight
	for _, f := range c.Forced {
		if f == 0 {
			continue
		}
		nv++
		l, w := nv, f
		if f < 0 {
			l, w = -nv, -f
		}
		cls = append(cls, []int{l})
		lits = append(lits, solver.IntToLit(int32(l)))
		weights = append(weights, w)
		fixed = append(fixed, [2]int{l, w})
		want += w
	}
	forced := fixed
	pb := solver.ParseSliceNb(oracle.CloneCNF(cls), nv)
	pb.SetCostFunc(lits, append([]int{}, weights...))
	s := solver.New(pb)
	var cost int
	var model []bool
	switch c.Entry {
	case "minimize":
		cost = s.Minimize()
		if cost >= 0 {
			model = s.Model()
		}
	case "optimal-chan":
		ch := make(chan solver.Result)
		done := make(chan struct{})
		go func() {
			for range ch {
			}
			close(done)
		}()
		res := s.Optimal(ch, nil)
		<-done
		cost, model = res.Weight, res.Model
		if res.Status != solver.Sat {
			cost = -1
		}
	default:
		res := s.Optimal(nil, nil)
		cost, model = res.Weight, res.Model
		if res.Status != solver.Sat {
			cost = -1
		}
	}
	o.Class("entry-" + c.Entry)
	o.Class(fmt.Sprintf("holes-%d", holes))
	o.ClassIf(len(forced) > 0, "cost-variables-fixed-by-units")
	o.ClassIf(s.Stats.NbRestarts > 0, "restart>0")
	o.ClassIf(s.Stats.NbDeleted > 0, "reduceDB>0")
	if s.Stats.NbConflicts >= 200 {
		o.Nontrivial()
	}
	if cost < 0 || model == nil {
		return fmt.Errorf("%s answers Unsat / no model on a satisfiable problem (optimum %d by construction)", c.Entry, want)
	}
	if i := oracle.ModelSatisfies(cls, model); i >= 0 {
		return fmt.Errorf("%s: the returned model violates the clause %v (%d conflicts, %d restarts)", c.Entry, cls[i], s.Stats.NbConflicts, s.Stats.NbRestarts)
	}
	got := 0
	for p := 0; p < pigeons; p++ {
		if model[r(p)-1] {
			got += c.W[p]
		}
	}
	for _, f := range fixed {
		if f[0] > 0 && model[f[0]-1] || f[0] < 0 && !model[-f[0]-1] {
			got += f[1]
		}
	}
	if got != cost {
		return fmt.Errorf("%s: reported cost %d, the cost function on the returned model gives %d", c.Entry, cost, got)
	}
	if cost != want {
		return fmt.Errorf("%s: reported optimum %d, the optimum is %d by construction (weights %v, forced %v; %d conflicts, %d restarts)", c.Entry, cost, want, c.W, c.Forced, s.Stats.NbConflicts, s.Stats.NbRestarts)
	}
	return nil
}

func genSoftPHP(t *rapid.T) SoftPHP {
	c := SoftPHP{Holes: rapid.SampledFrom([]int{5, 6, 6, 7}).Draw(t, "holes"), Entry: rapid.SampledFrom([]string{"optimal-nil", "optimal-chan", "minimize"}).Draw(t, "entry")}
	for p := 0; p <= c.Holes; p++ {
		c.W = append(c.W, rapid.IntRange(1, 6).Draw(t, "w"))
	}
	for i, k := 0, rapid.IntRange(0, 2).Draw(t, "forced"); i < k; i++ {
		c.Forced = append(c.Forced, rapid.SampledFrom([]int{-7, -3, -1, 1, 2, 5, 8}).Draw(t, "f"))
	}
	if rapid.Bool().Draw(t, "low") {
		c.NbMax = rapid.IntRange(20, 300).Draw(t, "limit")
	}
	return c
}

func init() {
	vf.Register(vf.Sub[SoftPHP]{Name: "soft-pigeonhole", Quick: 30, Thorough: 300, Gen: genSoftPHP, Check: checkSoftPHP, Floor: 0.4,
		Classes: map[string]float64{"restart>0": 0.2},
		Rule:    "holes+1 pigeons in 5..7 holes; giving up pigeon p costs W[p] in 1..6 (relaxation variable in its clause, weighted cost function), sharing a hole is forbidden; 0..2 further cost literals (of either sign) are fixed by unit clauses; the optimum is known by construction (smallest weight plus the fixed costs) and proving it takes hundreds to thousands of conflicts, with restarts and clause-database reductions between two improvements; entry points Optimal(nil), Optimal(chan), Minimize; asserted: valid model, reported cost = cost of the model = optimum; non-trivial = >= 200 conflicts"})
}
