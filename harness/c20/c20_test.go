//go:build verif

// C20 — the stream of intermediate results is valid, improving and always terminated.
package c20

import (
	"fmt"
	"runtime"
	"sort"
	"strings"
	"testing"

	"github.com/crillab/gophersat/maxsat"
	"github.com/crillab/gophersat/solver"
	"pgregory.net/rapid"
	"verifharness/gen"
	"verifharness/gs"
	"verifharness/oracle"
	"verifharness/texts"
	"verifharness/vf"
)

type Case struct {
	Kind    string          `json:"kind"` // optimal | maxsat | enumerate
	N       int             `json:"n"`
	Clauses [][]int         `json:"clauses,omitempty"`
	Constrs []gen.PC        `json:"constrs,omitempty"`
	Cost    *oracle.Cost    `json:"cost,omitempty"`
	WCNF    []texts.WClause `json:"wcnf,omitempty"`
	Top     int             `json:"top,omitempty"`
	Cap     int             `json:"cap"`    // channel capacity
	Delays  []int           `json:"delays"` // runtime.Gosched() calls after the i-th receive (cyclic)
	Procs   int             `json:"procs"`  // GOMAXPROCS
	Family  string          `json:"family,omitempty"`
}

func sems(c Case) []oracle.Constr {
	var s []oracle.Constr
	for _, cl := range c.Clauses {
		s = append(s, oracle.Clause(cl...))
	}
	return append(s, gen.Sems(c.Constrs)...)
}

func buildProblem(c Case) *solver.Problem {
	var pb *solver.Problem
	if len(c.Constrs) > 0 {
		cs := gs.PBConstrsOf(c.Constrs)
		for _, cl := range c.Clauses {
			cs = append(cs, solver.PropClause(append([]int{}, cl...)...))
		}
		cs = append(cs, solver.GtEq([]int{c.N}, []int{1}, 0))
		pb = solver.ParsePBConstrs(cs)
	} else {
		pb = solver.ParseSliceNb(oracle.CloneCNF(c.Clauses), c.N)
	}
	if c.Cost != nil && pb.Status != solver.Unsat {
		ls := make([]solver.Lit, len(c.Cost.Lits))
		for i, l := range c.Cost.Lits {
			ls[i] = solver.IntToLit(int32(l))
		}
		pb.SetCostFunc(ls, append([]int{}, c.Cost.W...))
	}
	return pb
}

func (c Case) delay(i int) {
	if len(c.Delays) == 0 {
		return
	}
	for k := 0; k < c.Delays[i%len(c.Delays)]; k++ {
		runtime.Gosched()
	}
}

// runStream starts produce in a goroutine and consumes ch. It reports what was delivered and
// whether the channel was closed by the time the producer had returned.
func runStream[T any](c Case, ch chan T, produce func() error) (stream []T, closedBeforeReturn bool, perr error) {
	done := make(chan struct{})
	go func() {
		defer close(done)
		perr = vf.Safely(produce)
	}()
	i := 0
	for {
		select {
		case r, ok := <-ch:
			if !ok {
				<-done
				return stream, true, perr
			}
			stream = append(stream, r)
			c.delay(i)
			i++
		case <-done:
			// the producer has returned: the channel must be closed by now (buffered results may remain)
			for {
				select {
				case r, ok := <-ch:
					if !ok {
						return stream, true, perr
					}
					stream = append(stream, r)
				default:
					return stream, false, perr
				}
			}
		}
	}
}

func check(c Case, o *vf.Obs) error {
	old := runtime.GOMAXPROCS(c.Procs)
	defer runtime.GOMAXPROCS(old)
	gs.Arm(0, gs.DefaultStepLimit)
	defer gs.Arm(0, 0)
	o.Class("kind-" + c.Kind)
	o.Class(fmt.Sprintf("cap-%d", c.Cap))
	o.Class(fmt.Sprintf("procs-%d", c.Procs))
	o.ClassIf(c.Family != "", "family-"+c.Family)
	for rep := 0; rep < 2; rep++ {
		var err error
		switch c.Kind {
		case "enumerate":
			err = checkEnum(c, o)
		default:
			err = checkOptim(c, o)
		}
		if err != nil {
			return fmt.Errorf("repetition %d: %v", rep, err)
		}
	}
	return nil
}

func checkOptim(c Case, o *vf.Obs) error {
	var costOf func(m uint64) (int, bool) // cost and feasibility of an assignment over N variables
	var optimal func(ch chan solver.Result) solver.Result
	if c.Kind == "maxsat" {
		costOf = func(m uint64) (int, bool) {
			cost := 0
			for _, w := range c.WCNF {
				if !oracle.ClauseTrue(w.Lits, m) {
					if w.Weight == 0 {
						return 0, false
					}
					cost += w.Weight
				}
			}
			return cost, true
		}
		s, err := maxsat.ParseWCNF(strings.NewReader(texts.WCNF(c.N, c.Top, c.WCNF, texts.WCNFLayout{})))
		if err != nil {
			return fmt.Errorf("ParseWCNF: %v", err)
		}
		optimal = func(ch chan solver.Result) solver.Result { return s.Optimal(ch, nil) }
	} else {
		conj := sems(c)
		costOf = func(m uint64) (int, bool) {
			if !oracle.AllTrue(conj, m) {
				return 0, false
			}
			if c.Cost == nil {
				return 0, true
			}
			return c.Cost.Of(m), true
		}
		s := solver.New(buildProblem(c))
		optimal = func(ch chan solver.Result) solver.Result { return s.Optimal(ch, nil) }
	}
	best, feasible := 0, false
	for m := uint64(0); m < 1<<uint(c.N); m++ {
		if k, ok := costOf(m); ok && (!feasible || k < best) {
			best, feasible = k, true
		}
	}
	ch := make(chan solver.Result, c.Cap)
	var ret solver.Result
	stream, closed, perr := runStream(c, ch, func() error { ret = optimal(ch); return nil })
	if perr != nil {
		return perr
	}
	if !closed {
		return fmt.Errorf("the call returned but the result channel is not closed (%d results delivered)", len(stream))
	}
	o.ClassIf(len(stream) >= 2, "stream-len>=2")
	o.ClassIf(len(stream) >= 3, "stream-len>=3")
	if len(stream) >= 2 {
		o.Nontrivial()
	}
	if len(stream) == 0 {
		return fmt.Errorf("nothing was delivered on the result channel (returned %v, cost %d)", ret.Status, ret.Weight)
	}
	prev := 0
	for i, r := range stream {
		switch r.Status {
		case solver.Unsat:
			if len(stream) != 1 {
				return fmt.Errorf("an Unsat result is delivered at position %d of a stream of %d results", i, len(stream))
			}
		case solver.Sat:
			if len(r.Model) != c.N {
				return fmt.Errorf("result %d: model has %d values, %d variables", i, len(r.Model), c.N)
			}
			k, ok := costOf(oracle.MaskOf(r.Model))
			if !ok {
				return fmt.Errorf("result %d of the stream is not a model of the constraints: %v", i, r.Model)
			}
			if k != r.Weight {
				return fmt.Errorf("result %d of the stream reports cost %d, its model costs %d", i, r.Weight, k)
			}
			if i > 0 && r.Weight >= prev {
				return fmt.Errorf("costs do not strictly decrease along the stream: %d then %d", prev, r.Weight)
			}
			prev = r.Weight
		default:
			return fmt.Errorf("result %d has status %v", i, r.Status)
		}
	}
	last := stream[len(stream)-1]
	if last.Status != ret.Status || last.Weight != ret.Weight || fmt.Sprint(last.Model) != fmt.Sprint(ret.Model) {
		return fmt.Errorf("the last delivered result (%v, %d, %v) differs from the returned one (%v, %d, %v)", last.Status, last.Weight, last.Model, ret.Status, ret.Weight, ret.Model)
	}
	if feasible != (ret.Status == solver.Sat) || feasible && ret.Weight != best {
		return fmt.Errorf("returned (%v, %d); truth: feasible=%v minimum=%d", ret.Status, ret.Weight, feasible, best)
	}
	return nil
}

func checkEnum(c Case, o *vf.Obs) error {
	conj := sems(c)
	truth := oracle.Models(c.N, func(m uint64) bool { return oracle.AllTrue(conj, m) })
	s := solver.New(buildProblem(c))
	ch := make(chan []bool, c.Cap)
	ret := -1
	stream, closed, perr := runStream(c, ch, func() error { ret = s.Enumerate(ch, nil); return nil })
	if perr != nil {
		return perr
	}
	if !closed {
		return fmt.Errorf("Enumerate returned but the model channel is not closed (%d models delivered)", len(stream))
	}
	o.ClassIf(len(stream) >= 2, "models>=2")
	if len(stream) >= 2 {
		o.Nontrivial()
	}
	if ret != len(stream) {
		return fmt.Errorf("Enumerate returned %d but delivered %d models", ret, len(stream))
	}
	var got []uint64
	for _, m := range stream {
		if len(m) != c.N {
			return fmt.Errorf("delivered model has %d values, %d variables", len(m), c.N)
		}
		got = append(got, oracle.MaskOf(m))
	}
	sort.Slice(got, func(i, j int) bool { return got[i] < got[j] })
	if len(got) != len(truth) {
		return fmt.Errorf("%d models delivered, the problem has %d", len(got), len(truth))
	}
	for i := range got {
		if got[i] != truth[i] {
			return fmt.Errorf("delivered models are not the models of the problem (position %d: %0*b vs %0*b)", i, c.N, got[i], c.N, truth[i])
		}
	}
	return nil
}

func consumer(t *rapid.T, c *Case) {
	c.Cap = rapid.IntRange(0, 3).Draw(t, "cap")
	for i, k := 0, rapid.IntRange(0, 4).Draw(t, "ndelays"); i < k; i++ {
		c.Delays = append(c.Delays, rapid.IntRange(0, 3).Draw(t, "delay"))
	}
	c.Procs = rapid.SampledFrom([]int{1, 2, 8}).Draw(t, "procs")
}

func genOptimal(t *rapid.T) Case {
	c := Case{Kind: "optimal"}
	switch rapid.IntRange(0, 3).Draw(t, "family") {
	case 0, 1:
		var cost oracle.Cost
		c.N, c.Clauses, cost = gen.VertexCover(t, 5, 12)
		c.Cost = &cost
		c.Family = "vertex-cover"
	case 2:
		var cost oracle.Cost
		c.N, c.Constrs, cost = gen.SetCover(t, 5, 11)
		c.Cost = &cost
		c.Family = "set-cover"
	default:
		c.N, c.Clauses = gen.SmallCNF(t, gen.CNFOpts{MinN: 2, MaxN: 9, MaxRatio: 3, MaxLen: 3, AllowUnit: true})
		if gen.Chance(t, 3, 4, "cost") {
			cf := gen.CostFunc(t, c.N, false)
			if cf.W == nil {
				cf.W = make([]int, len(cf.Lits))
				for i := range cf.W {
					cf.W[i] = 1
				}
			}
			c.Cost = &cf
		}
		c.Family = "uniform"
	}
	consumer(t, &c)
	return c
}

func genMaxsat(t *rapid.T) Case {
	c := Case{Kind: "maxsat", N: gen.Uniform(t, 2, 8, "n")}
	m := gen.Uniform(t, 3, 16, "m")
	sum := 0
	for i := 0; i < m; i++ {
		w := texts.WClause{Lits: gen.DistinctLits(t, c.N, gen.Uniform(t, 1, 3, "arity"), "l")}
		if !gen.Chance(t, 1, 3, "hard") {
			w.Weight = rapid.IntRange(1, 9).Draw(t, "w")
			sum += w.Weight
		}
		c.WCNF = append(c.WCNF, w)
	}
	// gadgets on which the weight-greedy first model is sub-optimal: one heavy soft unit clause
	// against several lighter opposite ones whose total weight is larger
	for g, k := 0, rapid.IntRange(0, 3).Draw(t, "gadgets"); g < k; g++ {
		l := gen.Lit(t, c.N, "g")
		heavy := rapid.IntRange(3, 9).Draw(t, "heavy")
		c.WCNF = append(c.WCNF, texts.WClause{Lits: []int{l}, Weight: heavy})
		sum += heavy
		for tot := 0; tot <= heavy; {
			w := rapid.IntRange(1, heavy-1).Draw(t, "light")
			c.WCNF = append(c.WCNF, texts.WClause{Lits: []int{-l}, Weight: w})
			tot += w
			sum += w
		}
	}
	c.Top = sum + 1
	consumer(t, &c)
	return c
}

func genEnum(t *rapid.T) Case {
	c := Case{Kind: "enumerate"}
	if rapid.Bool().Draw(t, "pb") {
		c.N, c.Constrs = gen.PBConstrs(t, gen.PBOpts{MinN: 1, MaxN: 7, MaxConstrs: 3, MaxArity: 5})
		c.Family = "pb"
	} else {
		c.N, c.Clauses = gen.SmallCNF(t, gen.CNFOpts{MinN: 1, MaxN: 8, MaxRatio: 2, MaxLen: 4, AllowEmpty: true, AllowDup: true, AllowUnit: true, UnusedVarSlack: true})
		c.Family = "cnf"
	}
	consumer(t, &c)
	return c
}

// SoftPHP: holes+1 pigeons, holes holes; "pigeon p sits somewhere" is a soft clause of weight 1, "two pigeons
// do not share a hole" is hard: the optimum is 1 by construction (one pigeon stays out), and proving it is a
// pigeonhole refutation inside the last optimisation round: hundreds to thousands of conflicts with restarts
// and clause-database reductions while the bound constraints and the facts they implied are in force.
type SoftPHP struct {
	Holes int    `json:"holes"`
	Cap   int    `json:"cap"`
	Procs int    `json:"procs"`
	NbMax int    `json:"nbmax,omitempty"`
	Via   string `json:"via"` // wcnf | solver
}

func checkSoftPHP(c SoftPHP, o *vf.Obs) error {
	old := runtime.GOMAXPROCS(c.Procs)
	defer runtime.GOMAXPROCS(old)
	gs.Arm(c.NbMax, 200_000_000)
	defer gs.Arm(0, 0)
	holes, pigeons := c.Holes, c.Holes+1
	n := pigeons * holes
	v := func(p, h int) int { return p*holes + h + 1 }
	var wcs []texts.WClause
	for p := 0; p < pigeons; p++ {
		var cl []int
		for h := 0; h < holes; h++ {
			cl = append(cl, v(p, h))
		}
		wcs = append(wcs, texts.WClause{Lits: cl, Weight: 1})
	}
	for h := 0; h < holes; h++ {
		for p := 0; p < pigeons; p++ {
			for q := p + 1; q < pigeons; q++ {
				wcs = append(wcs, texts.WClause{Lits: []int{-v(p, h), -v(q, h)}})
			}
		}
	}
	costOf := func(model []bool) (int, bool) {
		cost := 0
		for _, w := range wcs {
			if oracle.ModelSatisfies([][]int{w.Lits}, model) >= 0 {
				if w.Weight == 0 {
					return 0, false
				}
				cost += w.Weight
			}
		}
		return cost, true
	}
	var optimal func(ch chan solver.Result) solver.Result
	var stats func() solver.Stats
	if c.Via == "wcnf" {
		s, err := maxsat.ParseWCNF(strings.NewReader(texts.WCNF(n, pigeons+1, wcs, texts.WCNFLayout{})))
		if err != nil {
			return err
		}
		optimal = func(ch chan solver.Result) solver.Result { return s.Optimal(ch, nil) }
		stats = func() solver.Stats { return solver.Stats{} }
	} else {
		var cls [][]int
		var costLits []solver.Lit
		for i, w := range wcs {
			cl := append([]int{}, w.Lits...)
			if w.Weight > 0 {
				r := n + i + 1
				cl = append(cl, r)
				costLits = append(costLits, solver.IntToLit(int32(r)))
			}
			cls = append(cls, cl)
		}
		pb := solver.ParseSliceNb(cls, n+pigeons)
		pb.SetCostFunc(costLits, nil)
		s := solver.New(pb)
		optimal = func(ch chan solver.Result) solver.Result { return s.Optimal(ch, nil) }
		stats = func() solver.Stats { return s.Stats }
	}
	ch := make(chan solver.Result, c.Cap)
	var ret solver.Result
	stream, closed, perr := runStream(Case{}, ch, func() error { ret = optimal(ch); return nil })
	if perr != nil {
		return perr
	}
	st := stats()
	o.ClassIf(st.NbRestarts > 0, "restart>0")
	o.ClassIf(st.NbDeleted > 0, "reduceDB>0")
	o.Class(fmt.Sprintf("holes-%d", c.Holes))
	o.Nontrivial()
	if !closed {
		return fmt.Errorf("the call returned but the result channel is not closed")
	}
	prev := 0
	for i, r := range stream {
		if r.Status != solver.Sat {
			return fmt.Errorf("result %d has status %v; the instance is satisfiable with cost 1", i, r.Status)
		}
		k, ok := costOf(r.Model[:n])
		if !ok {
			return fmt.Errorf("result %d puts two pigeons in one hole", i)
		}
		if k != r.Weight {
			return fmt.Errorf("result %d reports cost %d, its model leaves %d pigeons out", i, r.Weight, k)
		}
		if i > 0 && r.Weight >= prev {
			return fmt.Errorf("costs do not strictly decrease along the stream: %d then %d", prev, r.Weight)
		}
		prev = r.Weight
	}
	if len(stream) == 0 || ret.Status != solver.Sat || ret.Weight != 1 || stream[len(stream)-1].Weight != 1 {
		return fmt.Errorf("returned (%v, %d) after %d results; the optimum is 1 by construction", ret.Status, ret.Weight, len(stream))
	}
	return nil
}

func genSoftPHP(t *rapid.T) SoftPHP {
	c := SoftPHP{Holes: rapid.SampledFrom([]int{5, 6, 7}).Draw(t, "holes"), Cap: rapid.IntRange(0, 2).Draw(t, "cap"),
		Procs: rapid.SampledFrom([]int{1, 4}).Draw(t, "procs"), Via: rapid.SampledFrom([]string{"wcnf", "solver"}).Draw(t, "via")}
	if rapid.Bool().Draw(t, "low") {
		c.NbMax = rapid.IntRange(50, 400).Draw(t, "limit")
	}
	return c
}

func init() {
	vf.Register(vf.Sub[SoftPHP]{Name: "soft-pigeonhole", Quick: 16, Thorough: 100, Gen: genSoftPHP, Check: checkSoftPHP, Journal: true,
		Rule: "holes+1 pigeons in 5..7 holes with soft 'pigeon sits somewhere' clauses: optimum 1 by construction; the last optimisation round is a pigeonhole refutation (restarts, clause-database reductions, with the bound constraints and the facts they implied in force); through ParseWCNF+Optimal(chan) or Solver.Optimal(chan) with relaxation literals; every streamed result validated, costs strictly decreasing, last = returned = 1, channel closed before return"})
}

func init() {
	tail := "; consumer = channel capacity 0..3 x 0..3 runtime.Gosched() calls after each receive x GOMAXPROCS in {1,2,8}; each case run twice; the producer runs in a goroutine, the consumer selects on the channel and on the producer's return: when the producer has returned the channel must already be closed; asserted: every delivered result is a model with its true cost, costs strictly decrease, Unsat only alone, last delivered = returned = brute-force optimum; a send on a closed channel or a double close panics and is caught"
	vf.Register(
		vf.Sub[Case]{Name: "optimal", Quick: 5000, Thorough: 60000, Gen: genOptimal, Check: check, Floor: 0.12, Journal: true,
			Rule: "Solver.Optimal(chan) on weighted vertex cover, set cover with PB rows and uniform CNF with cost function" + tail + "; non-trivial = stream of >=2 results"},
		vf.Sub[Case]{Name: "maxsat", Quick: 4000, Thorough: 50000, Gen: genMaxsat, Check: check, Floor: 0.12, Journal: true,
			Rule: "maxsat ParseWCNF(...).Optimal(chan) (results forwarded by an internal goroutine)" + tail + "; non-trivial = stream of >=2 results"},
		vf.Sub[Case]{Name: "enumerate", Quick: 5000, Thorough: 60000, Gen: genEnum, Check: check, Floor: 0.3, Journal: true,
			Rule: "Solver.Enumerate(chan) on CNF and PB problems: delivered multiset = truth-table model set, returned count = number delivered, channel closed before return" + tail + "; non-trivial = >=2 models"},
	)
}

func TestMain(m *testing.M)   { vf.Main(m, "C20") }
func TestCorpus(t *testing.T) { vf.Corpus(t) }
func TestProp(t *testing.T)   { vf.RunAll(t) }
func TestReplay(t *testing.T) { vf.ReplayEnv(t) }

// native fuzz targets (thorough tier): the fuzzer mutates the byte stream that rapid decodes into generator choices
func FuzzOptimalStream(f *testing.F)   { vf.FuzzNamed(f, "C20", "optimal") }
func FuzzEnumerateStream(f *testing.F) { vf.FuzzNamed(f, "C20", "enumerate") }
