//go:build verif

// Package gs is the glue between the harness and gophersat: it builds problems
// from the harness's plain data, runs solvers under the step watchdog and collects
// certificates. It must be built with -tags verif (it uses the hooks).
package gs

import (
	"bufio"
	"fmt"
	"io"
	"os"
	"strconv"
	"strings"

	"github.com/crillab/gophersat/solver"
	"verifharness/gen"
	"verifharness/oracle"
)

// DefaultStepLimit bounds the search-loop iterations of one case.
const DefaultStepLimit = 3_000_000

// Arm resets the watchdog and sets the hooks for one case.
func Arm(nbMax int, stepLimit int64) {
	solver.VerifInitNbMax = nbMax
	solver.VerifStepLimit = stepLimit
	solver.VerifResetSteps()
}

// Dimacs renders a CNF in the conventional layout.
func Dimacs(n int, cls [][]int) string {
	var sb strings.Builder
	fmt.Fprintf(&sb, "p cnf %d %d\n", n, len(cls))
	for _, c := range cls {
		for _, l := range c {
			sb.WriteString(strconv.Itoa(l))
			sb.WriteByte(' ')
		}
		sb.WriteString("0\n")
	}
	return sb.String()
}

// ParseCNFProblem builds a problem through the named entry point.
// entry: "slice" (ParseSlice), "slicenb" (ParseSliceNb with n), "cnf" (ParseCNF of a DIMACS rendering).
func ParseCNFProblem(entry string, n int, cls [][]int) (*solver.Problem, error) {
	switch entry {
	case "slice":
		return solver.ParseSlice(oracle.CloneCNF(cls)), nil
	case "slicenb":
		return solver.ParseSliceNb(oracle.CloneCNF(cls), n), nil
	case "cnf":
		return solver.ParseCNF(strings.NewReader(Dimacs(n, cls)))
	}
	panic("gs: unknown entry " + entry)
}

// ParseCertLine parses one certificate line ("1 -2 0") into a clause.
func ParseCertLine(line string) ([]int, error) {
	fs := strings.Fields(line)
	if len(fs) == 0 || fs[len(fs)-1] != "0" {
		return nil, fmt.Errorf("certificate line %q does not end with 0", line)
	}
	c := make([]int, 0, len(fs)-1)
	for _, f := range fs[:len(fs)-1] {
		v, err := strconv.Atoi(f)
		if err != nil || v == 0 {
			return nil, fmt.Errorf("certificate line %q: bad literal %q", line, f)
		}
		c = append(c, v)
	}
	return c, nil
}

// SolveResult is what a plain Solve produced.
type SolveResult struct {
	Status solver.Status
	Model  []bool
	Cert   [][]int // certificate lines, when requested
	Stats  solver.Stats
}

// Solve runs s.Solve(), optionally collecting the certificate through a channel.
// buffered selects a large buffered channel drained afterwards instead of a consumer goroutine.
func Solve(s *solver.Solver, cert, buffered bool) (SolveResult, error) {
	var res SolveResult
	var lines []string
	if cert {
		s.Certified = true
		if buffered {
			s.CertChan = make(chan string, 1<<16)
			res.Status = s.Solve()
			close(s.CertChan)
			for l := range s.CertChan {
				lines = append(lines, l)
			}
		} else {
			s.CertChan = make(chan string)
			done := make(chan struct{})
			go func() {
				for l := range s.CertChan {
					lines = append(lines, l)
				}
				close(done)
			}()
			func() {
				defer func() { close(s.CertChan); <-done }()
				res.Status = s.Solve()
			}()
		}
		for _, l := range lines {
			c, err := ParseCertLine(l)
			if err != nil {
				return res, err
			}
			res.Cert = append(res.Cert, c)
		}
	} else {
		res.Status = s.Solve()
	}
	res.Stats = s.Stats
	if res.Status == solver.Sat {
		res.Model = s.Model()
	}
	return res, nil
}

// SolveStdout runs s.Solve() with certificate generation on and no certificate channel: the library then
// prints the certificate on the process's standard output, which is redirected to a pipe for the duration of
// the call. Everything written there is returned as certificate lines (empty lines dropped).
func SolveStdout(s *solver.Solver) (SolveResult, error) {
	var res SolveResult
	r, w, err := os.Pipe()
	if err != nil {
		return res, fmt.Errorf("harness: %v", err)
	}
	var text []byte
	done := make(chan struct{})
	go func() {
		text, _ = io.ReadAll(r)
		close(done)
	}()
	s.Certified = true
	s.CertChan = nil
	old := os.Stdout
	func() {
		defer func() {
			os.Stdout = old
			w.Close()
			<-done
			r.Close()
		}()
		os.Stdout = w
		res.Status = s.Solve()
	}()
	for _, l := range strings.Split(string(text), "\n") {
		if strings.TrimSpace(l) == "" {
			continue
		}
		c, err := ParseCertLine(l)
		if err != nil {
			return res, err
		}
		res.Cert = append(res.Cert, c)
	}
	res.Stats = s.Stats
	if res.Status == solver.Sat {
		res.Model = s.Model()
	}
	return res, nil
}

// ReadLines splits a text into lines.
func ReadLines(s string) []string {
	var out []string
	sc := bufio.NewScanner(strings.NewReader(s))
	for sc.Scan() {
		out = append(out, sc.Text())
	}
	return out
}

// PBConstrsOf turns user-level constraints into solver.PBConstr values through the public
// constructors, always handing them copies (the constructors mutate their arguments).
func PBConstrsOf(ps []gen.PC) []solver.PBConstr {
	var out []solver.PBConstr
	for _, p := range ps {
		lits := append([]int{}, p.Lits...)
		var w []int
		if p.Coefs != nil {
			w = append([]int{}, p.Coefs...)
		}
		switch p.Kind {
		case "gteq":
			out = append(out, solver.GtEq(lits, w, p.K))
		case "lteq":
			out = append(out, solver.LtEq(lits, w, p.K))
		case "eq":
			out = append(out, solver.Eq(lits, w, p.K)...)
		case "atleast":
			out = append(out, solver.AtLeast(lits, p.K))
		case "atmost":
			out = append(out, solver.AtMost(lits, p.K))
		case "clause":
			out = append(out, solver.PropClause(lits...))
		case "atmost1": // no PB helper: at most one == at most 1
			out = append(out, solver.AtMost(lits, 1))
		case "exactly1":
			ones := make([]int, len(lits))
			for i := range ones {
				ones[i] = 1
			}
			out = append(out, solver.Eq(lits, ones, 1)...)
		default:
			panic("gs: bad kind " + p.Kind)
		}
	}
	return out
}

// CardConstrsOf builds solver.CardConstr values (cardinality front-end).
func CardConstrsOf(ps []gen.PC) []solver.CardConstr {
	var out []solver.CardConstr
	for _, p := range ps {
		lits := append([]int{}, p.Lits...)
		switch p.Kind {
		case "atleast":
			out = append(out, solver.CardConstr{Lits: lits, AtLeast: p.K})
		case "clause":
			out = append(out, solver.AtLeast1(lits...))
		case "atmost1":
			out = append(out, solver.AtMost1(lits...))
		case "exactly1":
			out = append(out, solver.Exactly1(lits...)...)
		default:
			panic("gs: kind not available in the cardinality front-end: " + p.Kind)
		}
	}
	return out
}

// ProblemPred evaluates a *parsed* problem without solving it, reading only exported data
// (Units, Clauses[i].Len/Get/Weight/Cardinality, Status): an assignment is a model when it
// makes every unit true and gives every constraint a weighted sum >= its cardinality.
func ProblemPred(pb *solver.Problem) func(m uint64) bool {
	if pb.Status == solver.Unsat {
		return func(uint64) bool { return false }
	}
	type con struct {
		lits, ws []int
		card     int
	}
	var cons []con
	for _, c := range pb.Clauses {
		k := con{card: c.Cardinality()}
		for i := 0; i < c.Len(); i++ {
			k.lits = append(k.lits, int(c.Get(i).Int()))
			k.ws = append(k.ws, c.Weight(i))
		}
		cons = append(cons, k)
	}
	var units []int
	for _, u := range pb.Units {
		units = append(units, int(u.Int()))
	}
	return func(m uint64) bool {
		for _, u := range units {
			if !oracle.LitTrue(u, m) {
				return false
			}
		}
		for _, k := range cons {
			s := 0
			for i, l := range k.lits {
				if oracle.LitTrue(l, m) {
					s += k.ws[i]
				}
			}
			if s < k.card {
				return false
			}
		}
		return true
	}
}
