//go:build verif

// C06 — every Unsat answer on CNF comes with a valid RUP refutation.
package c06

import (
	"fmt"
	"strings"
	"sync"
	"testing"

	"github.com/crillab/gophersat/solver"
	"pgregory.net/rapid"
	"verifharness/gen"
	"verifharness/gs"
	"verifharness/oracle"
	"verifharness/vf"
)

type Case struct {
	N        int     `json:"n"`
	Clauses  [][]int `json:"clauses"`
	Entry    string  `json:"entry"`    // slicenb | cnf | slice
	Buffered bool    `json:"buffered"` // certificate channel buffered (drained afterwards) or consumed by a goroutine
	NbMax    int     `json:"nbmax,omitempty"`
	Family   string  `json:"family,omitempty"`
	Stdout   bool    `json:"stdout,omitempty"` // no certificate channel: the library prints the certificate on standard output
}

func check(c Case, o *vf.Obs) error {
	n := c.N
	if c.Entry == "slice" {
		n = oracle.MaxVar(c.Clauses)
	}
	o.ClassIf(c.Family != "", "family-"+c.Family)
	o.ClassIf(c.NbMax > 0, "nbmax-lowered")
	o.ClassIf(c.Buffered, "cert-chan-buffered")
	_, _, dup, taut := gen.Shapes(c.Clauses)
	o.ClassIf(dup, "has-dup-lit")
	o.ClassIf(taut, "has-tautology")

	// certification on
	gs.Arm(c.NbMax, gs.DefaultStepLimit)
	defer gs.Arm(0, 0)
	pb, err := gs.ParseCNFProblem(c.Entry, c.N, c.Clauses)
	if err != nil {
		return fmt.Errorf("parse error: %v", err)
	}
	parseStatus := pb.Status
	o.ClassIf(c.Stdout, "cert-on-stdout")
	var on gs.SolveResult
	if c.Stdout {
		on, err = gs.SolveStdout(solver.New(pb))
	} else {
		on, err = gs.Solve(solver.New(pb), true, c.Buffered && n <= 20)
	}
	if err != nil {
		return fmt.Errorf("malformed certificate line: %v", err)
	}
	// certification off
	gs.Arm(c.NbMax, gs.DefaultStepLimit)
	pb2, _ := gs.ParseCNFProblem(c.Entry, c.N, c.Clauses)
	off, _ := gs.Solve(solver.New(pb2), false, false)
	if on.Status != off.Status {
		return fmt.Errorf("verdict %v with certificate generation on, %v with it off", on.Status, off.Status)
	}
	o.ClassIf(on.Stats.NbDeleted > 0, "reduceDB>0")
	o.ClassIf(on.Stats.NbRestarts > 0, "restart>0")
	o.ClassIf(len(on.Cert) > 0, "cert-lines>0")
	o.ClassIf(len(on.Cert) >= 20, "cert-lines>=20")
	maxLine := 0
	for _, l := range on.Cert {
		if len(l) > maxLine {
			maxLine = len(l)
		}
	}
	o.ClassIf(maxLine >= 100, "cert-line>=100-lits")
	o.ClassIf(maxLine > 500, "cert-line>500-lits")
	o.ClassIf(maxLine > 10000, "cert-line>10000-lits")
	o.ClassIf(parseStatus != solver.Indet, "parse-decided")
	for _, line := range on.Cert {
		for _, l := range line {
			if l > n || -l > n {
				return fmt.Errorf("certificate line %v mentions a variable beyond %d", line, n)
			}
		}
	}
	if strings.HasPrefix(c.Family, "ladder-") {
		if want := c.Family == "ladder-unsat"; want != (on.Status == solver.Unsat) {
			return fmt.Errorf("verdict %v on a %s formula (truth known by construction)", on.Status, c.Family)
		}
	}
	switch on.Status {
	case solver.Unsat:
		o.Class("unsat")
		learned := 0
		for _, l := range on.Cert {
			if len(l) > 0 {
				learned++
			}
		}
		if learned > 0 && parseStatus == solver.Indet {
			o.Nontrivial()
		}
		bad, refuted := oracle.CheckTrace(n, c.Clauses, on.Cert)
		if bad >= 0 {
			return fmt.Errorf("Unsat: certificate line %d %v is not derivable by unit propagation from the formula and the %d earlier lines", bad, on.Cert[bad], bad)
		}
		if !refuted {
			return fmt.Errorf("Unsat: after the %d certificate lines the empty clause is not derivable by unit propagation", len(on.Cert))
		}
		if n <= 20 && oracle.CNFSat(n, c.Clauses) {
			return fmt.Errorf("Unsat with a 'valid' certificate on a satisfiable formula (harness RUP checker or solver wrong)")
		}
	case solver.Sat:
		o.Class("sat")
		for _, res := range []gs.SolveResult{on, off} {
			if len(res.Model) != n {
				return fmt.Errorf("model has %d values, %d variables", len(res.Model), n)
			}
			if i := oracle.ModelSatisfies(c.Clauses, res.Model); i >= 0 {
				return fmt.Errorf("model violates clause #%d %v (certificate generation %v)", i, c.Clauses[i], &res == &on)
			}
		}
		// every emitted clause must be a consequence of the formula
		if n <= 20 {
			models := oracle.Models(n, oracle.CNFPred(c.Clauses))
			for i, line := range on.Cert {
				for _, m := range models {
					if !oracle.ClauseTrue(line, m) {
						return fmt.Errorf("Sat: certificate line %d %v is not a consequence of the formula (falsified by model %b)", i, line, m)
					}
				}
			}
		} else {
			r := oracle.NewRUP(n, c.Clauses)
			for i, line := range on.Cert {
				if !r.Check(line) { // RUP implies consequence; otherwise ask DPLL
					ent, done := oracle.Entails(n, c.Clauses, line, 2_000_000)
					if !done {
						o.Inconclusive("entailment of a non-RUP line undecided within the DPLL step limit")
					} else if !ent {
						return fmt.Errorf("Sat: certificate line %d %v is not a consequence of the formula", i, line)
					}
				}
				r.Add(line)
			}
		}
	default:
		return fmt.Errorf("Solve returned %v", on.Status)
	}
	return nil
}

func config(t *rapid.T, c *Case) {
	c.Entry = rapid.SampledFrom([]string{"slicenb", "cnf", "slice"}).Draw(t, "entry")
	c.Buffered = rapid.Bool().Draw(t, "buffered")
	c.Stdout = gen.Chance(t, 1, 4, "stdout")
	switch rapid.IntRange(0, 3).Draw(t, "nbmaxSel") {
	case 1:
		c.NbMax = c.N + 1
	case 2:
		c.NbMax = c.N + 8
	case 3:
		c.NbMax = rapid.IntRange(2, 12).Draw(t, "tinyLimit")
	}
}

func genSmall(t *rapid.T) Case {
	var c Case
	c.N, c.Clauses = gen.FormulaSmall(t)
	config(t, &c)
	return c
}

func genHard(t *rapid.T) Case {
	var c Case
	c.N, c.Clauses, c.Family = gen.FormulaHardSmall(t)
	config(t, &c)
	return c
}

func genHeavy(t *rapid.T) Case {
	var c Case
	maxN := 100
	if vf.Thorough() {
		maxN = 150
	}
	c.N, c.Clauses = gen.FormulaThreshold(t, 30, maxN)
	config(t, &c)
	return c
}

// genSpread: a threshold 3-SAT core whose variables are spread over 2 000..6 000 declared variables (most of them
// unused): data structures the solver sizes by the number of variables change regime there, the search does not.
func genSpread(t *rapid.T) Case {
	var c Case
	c.N, c.Clauses = gen.FormulaThreshold(t, 30, 80)
	stride := gen.Uniform(t, 25, 75, "stride")
	off := gen.Uniform(t, 0, stride-1, "offset")
	for _, cl := range c.Clauses {
		for i, l := range cl {
			if l > 0 {
				cl[i] = l*stride - off
			} else {
				cl[i] = l*stride + off
			}
		}
	}
	c.N = c.N*stride + gen.Uniform(t, 0, 500, "unusedTail")
	config(t, &c)
	c.Family = "spread"
	return c
}

// genLadder: learned clauses of hundreds / thousands of literals (size thresholds of buffers and heuristics).
func genLadder(t *rapid.T) Case {
	var c Case
	nx := rapid.SampledFrom([]int{30, 120, 300, 520, 520, 600, 700}).Draw(t, "nx") + rapid.IntRange(0, 40).Draw(t, "plus")
	if gen.Chance(t, 1, 3, "huge") {
		nx = 10001 + rapid.IntRange(0, 300).Draw(t, "hugePlus") // beyond the solver's 10 000-literal scratch buffer
	}
	var tail string
	c.N, c.Clauses, tail = gen.Ladder(t, nx)
	c.Family = "ladder-" + tail
	c.Entry = rapid.SampledFrom([]string{"slicenb", "cnf"}).Draw(t, "entry")
	c.Buffered = false
	c.Stdout = gen.Chance(t, 1, 4, "stdout")
	return c
}

func genLongOdd(t *rapid.T) Case {
	var c Case
	c.N, c.Clauses = gen.LongOddClauses(t)
	config(t, &c)
	c.Family = "long-odd-clauses"
	return c
}

// genRestart: instances large enough for the restart policy to fire (n >= 100 at the threshold).
func genRestart(t *rapid.T) Case {
	var c Case
	c.N, c.Clauses = gen.FormulaThreshold(t, 100, 150)
	config(t, &c)
	c.Family = "restart-prone"
	return c
}

func init() {
	tail := "; solved with certificate generation on (channel buffered or consumed concurrently) x learned-clause limit {default, 2..12, n+1, n+8} and again with it off; Unsat: each line RUP w.r.t. formula + earlier lines and the empty clause RUP-derivable at the end, by an independent checker on literal sets; Sat: each line a consequence (truth table n<=20, else RUP or DPLL entailment), same verdict and valid models with certification on and off; non-trivial = Unsat, not decided at parse time, >=1 non-empty certificate line"
	vf.Register(
		vf.Sub[Case]{Name: "small", Quick: 4000, Thorough: 75000, Gen: genSmall, Check: check, Floor: 0.05,
			Rule: "CNF n<=10 with duplicate literals, tautologies, units, empty clauses" + tail},
		vf.Sub[Case]{Name: "hard-small", Quick: 500, Thorough: 15000, Gen: genHard, Check: check, Floor: 0.4,
			Classes: map[string]float64{"cert-lines>=20": 0.2, "reduceDB>0": 0.08},
			Rule:    "parity systems (n 14..20) and pigeonhole formulas" + tail},
		vf.Sub[Case]{Name: "threshold-3sat", Quick: 120, Thorough: 3000, Gen: genHeavy, Check: check, Floor: 0.25,
			Classes: map[string]float64{"cert-lines>=20": 0.4},
			Rule:    "uniform 3-SAT n in 30..100 (thorough ..150), ratio 4.0..4.6" + tail},
		vf.Sub[Case]{Name: "spread-3sat", Quick: 60, Thorough: 1500, Gen: genSpread, Check: check, Floor: 0.25,
			Classes: map[string]float64{"cert-lines>=20": 0.4},
			Rule:    "uniform 3-SAT cores of 30..80 variables at ratio 4.0..4.6 whose variables are spread with a stride of 25..75 over 750..6 500 declared variables (mostly unused)" + tail},
		vf.Sub[Case]{Name: "long-learned-clauses", Quick: 30, Thorough: 100, Gen: genLadder, Check: check, Floor: 0.2,
			Rule: "'ladder' formulas: one clause over 30..1100 (sometimes 10 001+) variables, split on a helper, plus an implication chain x_k -> x_k+1 (each split on a helper) with or without 'not x_n', or a single gadget; variables numbered helpers-first/last and ascending/descending: the learned clauses hold hundreds to thousands of literals; the truth (unsat / sat) is known by construction and checked through the model / the independent RUP replay" + tail},
		vf.Sub[Case]{Name: "long-odd-clauses", Quick: 800, Thorough: 10000, Gen: genLongOdd, Check: check, Floor: 0,
			Rule: "34..50 variables, 2..4 clauses of 33..n+6 literals drawn with replacement (repeated literals, tautologies) next to 5..25 short clauses; same assertions as small"},
		vf.Sub[Case]{Name: "restart-prone-3sat", Quick: 50, Thorough: 1200, Gen: genRestart, Check: check, Floor: 0.25,
			Classes: map[string]float64{"restart>0": 0.04},
			Rule:    "uniform 3-SAT n in 100..150, ratio 4.0..4.6: hundreds to thousands of conflicts, so that restarts (and clause-database reductions with the lowered limit) happen before the answer" + tail},
	)
}

func TestMain(m *testing.M)   { vf.Main(m, "C06") }
func TestCorpus(t *testing.T) { vf.Corpus(t) }
func TestProp(t *testing.T)   { vf.RunAll(t) }
func TestReplay(t *testing.T) { vf.ReplayEnv(t) }

// native fuzz targets (thorough tier): the fuzzer mutates the byte stream that rapid decodes into generator choices
func FuzzCertSmall(f *testing.F) { vf.FuzzNamed(f, "C06", "small") }

// ---- certified solvers at work side by side ------------------------------------------------------------

// ParCase: G goroutines each solve Per random 3-SAT formulas (ratio 5.2: nearly all unsatisfiable) with certificate
// generation on and a certificate channel of their own; the formulas are derived from Seed by a fixed generator.
type ParCase struct {
	G    int    `json:"g"`
	Per  int    `json:"per"`
	N    int    `json:"n"`
	Seed uint64 `json:"seed"`
}

func denseFormula(n int, seed uint64) [][]int {
	x := seed*0x9e3779b97f4a7c15 + 0x2545f4914f6cdd1d
	next := func() uint64 {
		x ^= x << 13
		x ^= x >> 7
		x ^= x << 17
		return x
	}
	var cls [][]int
	for len(cls) < n*52/10 {
		var cl []int
		for len(cl) < 3 {
			v := int(next()%uint64(n)) + 1
			dup := false
			for _, l := range cl {
				if l == v || l == -v {
					dup = true
				}
			}
			if dup {
				continue
			}
			if next()&1 == 1 {
				v = -v
			}
			cl = append(cl, v)
		}
		cls = append(cls, cl)
	}
	return cls
}

func checkPar(c ParCase, o *vf.Obs) error {
	gs.Arm(0, 0)
	errs := make([]error, c.G)
	lines := make([]int, c.G)
	var wg sync.WaitGroup
	for g := 0; g < c.G; g++ {
		wg.Add(1)
		go func(g int) {
			defer wg.Done()
			errs[g] = vf.Safely(func() error {
				for j := 0; j < c.Per; j++ {
					seed := c.Seed + uint64(g*1000+j)
					cls := denseFormula(c.N, seed)
					res, err := gs.Solve(solver.New(solver.ParseSliceNb(oracle.CloneCNF(cls), c.N)), true, false)
					if err != nil {
						return fmt.Errorf("goroutine %d, formula %d (seed %d): malformed certificate line: %v", g, j, seed, err)
					}
					lines[g] += len(res.Cert)
					switch res.Status {
					case solver.Sat:
						if i := oracle.ModelSatisfies(cls, res.Model); i >= 0 {
							return fmt.Errorf("goroutine %d, formula %d (seed %d): the model violates clause %v", g, j, seed, cls[i])
						}
					case solver.Unsat:
						if bad, refuted := oracle.CheckTrace(c.N, cls, res.Cert); bad >= 0 || !refuted {
							return fmt.Errorf("goroutine %d, formula %d (seed %d, %d variables): the certificate is not a RUP refutation (first bad line index %d of %d, empty clause derivable=%v)", g, j, seed, c.N, bad, len(res.Cert), refuted)
						}
					default:
						return fmt.Errorf("goroutine %d, formula %d: Solve = %v", g, j, res.Status)
					}
				}
				return nil
			})
		}(g)
	}
	wg.Wait()
	total := 0
	for g := range errs {
		if errs[g] != nil {
			return fmt.Errorf("%d certified solvers at work side by side: %v", c.G, errs[g])
		}
		total += lines[g]
	}
	if total >= 50*c.G {
		o.Nontrivial()
	}
	return nil
}

func genPar(t *rapid.T) ParCase {
	return ParCase{G: rapid.SampledFrom([]int{2, 4, 8}).Draw(t, "g"), Per: rapid.IntRange(10, 40).Draw(t, "per"), N: gen.Uniform(t, 30, 60, "n"), Seed: rapid.Uint64().Draw(t, "seed")}
}

func init() {
	vf.Register(vf.Sub[ParCase]{Name: "side-by-side", Quick: 8, Thorough: 60, Gen: genPar, Check: checkPar, Floor: 0.5,
		Rule: "2..8 goroutines each solve 10..40 random 3-SAT formulas of their own (ratio 5.2 over 30..60 variables, derived from a drawn seed by a fixed generator) with certificate generation on and their own certificate channel: every Unsat answer must come with a RUP refutation of that goroutine's formula, every Sat answer with a valid model; non-trivial = >= 50 certificate lines per goroutine"})
}
