package texts

import (
	"fmt"
	"regexp"
	"strconv"
	"strings"
)

// StrictDIMACS checks that txt is a well-formed DIMACS CNF text in the strict sense:
// optional comment lines, one header, then clauses made of in-range non-zero literals each
// terminated by 0, the number of clauses equal to the header's. It returns the content.
func StrictDIMACS(txt string) (n int, cls [][]int, err error) {
	header := false
	declared := 0
	var cur []int
	open := false
	for ln, line := range strings.Split(txt, "\n") {
		line = strings.TrimRight(line, "\r")
		if strings.HasPrefix(line, "c") {
			continue
		}
		fs := strings.Fields(line)
		if len(fs) == 0 {
			continue
		}
		if fs[0] == "p" {
			if header || len(fs) != 4 || fs[1] != "cnf" {
				return 0, nil, fmt.Errorf("line %d: bad or repeated header %q", ln+1, line)
			}
			var e1, e2 error
			n, e1 = strconv.Atoi(fs[2])
			declared, e2 = strconv.Atoi(fs[3])
			if e1 != nil || e2 != nil || n < 0 || declared < 0 {
				return 0, nil, fmt.Errorf("line %d: bad header %q", ln+1, line)
			}
			header = true
			continue
		}
		if !header {
			return 0, nil, fmt.Errorf("line %d: clause before header", ln+1)
		}
		for _, f := range fs {
			v, e := strconv.Atoi(f)
			if e != nil {
				return 0, nil, fmt.Errorf("line %d: token %q is not an integer", ln+1, f)
			}
			if v == 0 {
				cls = append(cls, append([]int{}, cur...))
				cur, open = nil, false
				continue
			}
			if v > n || -v > n {
				return 0, nil, fmt.Errorf("line %d: literal %d out of range 1..%d", ln+1, v, n)
			}
			cur = append(cur, v)
			open = true
		}
	}
	if !header {
		return 0, nil, fmt.Errorf("no header")
	}
	if open {
		return 0, nil, fmt.Errorf("last clause is not terminated by 0")
	}
	if len(cls) != declared {
		return 0, nil, fmt.Errorf("header announces %d clauses, %d found", declared, len(cls))
	}
	return n, cls, nil
}

var (
	opbTerm = `[+-]?\d+ +~?x[1-9]\d*`
	opbObj  = regexp.MustCompile(`^min: *(` + opbTerm + ` +)*;$`)
	opbCons = regexp.MustCompile(`^(` + opbTerm + ` +)+(>=|=) *[+-]?\d+ *;$`)
)

// StrictOPB checks every line against the PB competition grammar (linear, small integers):
// '*' comment lines, an optional objective first, constraints "<int> <lit> ... (>=|=) <int> ;"
// where every term is followed by at least one blank.
func StrictOPB(txt string) error {
	seenConstraint := false
	for ln, line := range strings.Split(txt, "\n") {
		line = strings.TrimRight(line, "\r")
		if line == "" || strings.HasPrefix(line, "*") {
			continue
		}
		switch {
		case strings.HasPrefix(line, "min:"):
			if seenConstraint {
				return fmt.Errorf("line %d: objective after a constraint", ln+1)
			}
			if !opbObj.MatchString(line) {
				return fmt.Errorf("line %d: malformed objective %q", ln+1, line)
			}
		case opbCons.MatchString(line):
			seenConstraint = true
		default:
			return fmt.Errorf("line %d: malformed constraint %q", ln+1, line)
		}
	}
	return nil
}
