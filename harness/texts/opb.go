// Package texts renders semantic objects (CNF, PB problems, weighted CNF, formulas)
// into the text formats gophersat reads, with layout knobs. The zero value of every
// layout struct is the conventional layout. It imports nothing from gophersat.
package texts

import (
	"fmt"
	"strings"

	"verifharness/oracle"
)

// OPBLayout holds the layout knobs of the OPB writer (zero value = conventional).
type OPBLayout struct {
	Comments      int  `json:"comments,omitempty"`      // number of "* ..." lines spread over the file
	CommentFirst  bool `json:"comment_first,omitempty"` // a "* #variable= .. #constraint= .." header line
	NoPlus        bool `json:"no_plus,omitempty"`       // positive coefficients without explicit '+'
	Tabs          bool `json:"tabs,omitempty"`          // tabs instead of single blanks between tokens
	WideSpaces    bool `json:"wide,omitempty"`          // several blanks between tokens
	CRLF          bool `json:"crlf,omitempty"`
	NoFinalNL     bool `json:"no_final_nl,omitempty"`
	BlankLines    bool `json:"blank_lines,omitempty"`    // empty lines between constraints
	TightOperator bool `json:"tight_op,omitempty"`       // ">=3" / "=3" without blank after the operator (allowed by the PB grammar)
	TightSemi     bool `json:"tight_semi,omitempty"`     // "3;" without blank before the semicolon
	TightMin      bool `json:"tight_min,omitempty"`      // "min:+1 x1" without blank after "min:"
	TrailingBlank bool `json:"trailing_blank,omitempty"` // blanks after the ';'
	OmitUnitCoef  bool `json:"omit_unit_coef,omitempty"` // NOT part of the PB format (coefficient is mandatory); never set by the C13 generator
}

func (l OPBLayout) sep() string {
	switch {
	case l.Tabs:
		return "\t"
	case l.WideSpaces:
		return "   "
	}
	return " "
}

func (l OPBLayout) term(w, lit int, first bool) string {
	name := fmt.Sprintf("x%d", lit)
	if lit < 0 {
		name = fmt.Sprintf("~x%d", -lit)
	}
	coef := fmt.Sprintf("%+d", w)
	if l.NoPlus && w >= 0 {
		coef = fmt.Sprintf("%d", w)
	}
	return coef + l.sep() + name
}

// OPBConstraint renders one constraint. "<=" is not an OPB relation: it is written as the
// equivalent ">=" with all coefficients and the degree negated.
func (l OPBLayout) OPBConstraint(c oracle.Constr) string {
	rel, k := c.Rel, c.K
	neg := false
	if rel == "<=" {
		rel, k, neg = ">=", -c.K, true
	}
	var parts []string
	for i, lit := range c.Lits {
		w := 1
		if c.Coefs != nil {
			w = c.Coefs[i]
		}
		if neg {
			w = -w
		}
		parts = append(parts, l.term(w, lit, i == 0))
	}
	s := strings.Join(parts, l.sep())
	if len(parts) > 0 {
		s += l.sep()
	}
	s += rel
	if !l.TightOperator {
		s += l.sep()
	}
	s += fmt.Sprintf("%d", k)
	if !l.TightSemi {
		s += l.sep()
	}
	s += ";"
	if l.TrailingBlank {
		s += "  "
	}
	return s
}

// OPB renders a PB problem. cost may be nil (decision problem).
func OPB(cost *oracle.Cost, cs []oracle.Constr, l OPBLayout) string {
	nl := "\n"
	if l.CRLF {
		nl = "\r\n"
	}
	var lines []string
	if l.CommentFirst {
		lines = append(lines, fmt.Sprintf("* #variable= %d #constraint= %d", oracle.MaxVarConstrs(cs), len(cs)))
	}
	if cost != nil {
		var parts []string
		for i, lit := range cost.Lits {
			w := 1
			if cost.W != nil {
				w = cost.W[i]
			}
			parts = append(parts, l.term(w, lit, i == 0))
		}
		s := "min:"
		if !l.TightMin {
			s += l.sep()
		}
		s += strings.Join(parts, l.sep())
		if !l.TightSemi || len(parts) == 0 {
			s += l.sep()
		}
		s += ";"
		if l.TrailingBlank {
			s += " "
		}
		lines = append(lines, s)
	}
	comments := l.Comments
	for i, c := range cs {
		if comments > 0 && i%2 == 0 {
			lines = append(lines, "* comment "+fmt.Sprint(i))
			comments--
		}
		if l.BlankLines && i%3 == 1 {
			lines = append(lines, "")
		}
		lines = append(lines, l.OPBConstraint(c))
	}
	for ; comments > 0; comments-- {
		lines = append(lines, "*trailing comment")
	}
	out := strings.Join(lines, nl)
	if !l.NoFinalNL {
		out += nl
	}
	return out
}
