package texts

import (
	"fmt"
	"strings"
)

// CNFLayout holds the layout knobs of the DIMACS writer (zero value = conventional layout:
// "p cnf V C", one clause per line, single blanks, final newline).
type CNFLayout struct {
	CommentsBefore int      `json:"comments_before,omitempty"`  // comment lines before the header
	CommentNoSpace bool     `json:"comment_no_space,omitempty"` // "cfoo" instead of "c foo"
	HeaderSpacing  int      `json:"header_spacing,omitempty"`   // 0 single blanks, 1 several blanks, 2 tabs
	LitSeps        []string `json:"lit_seps,omitempty"`         // cyclic pattern of separators between the tokens of a clause
	ClauseEnds     []string `json:"clause_ends,omitempty"`      // cyclic pattern of separators after a clause's terminating 0
	CommentsAfter  []int    `json:"comments_after,omitempty"`   // indexes of clauses followed by a comment line (only when that clause ends a line)
	CRLF           bool     `json:"crlf,omitempty"`
	NoFinalNewline bool     `json:"no_final_newline,omitempty"`
}

// Knobs lists the knobs that differ from the conventional layout.
func (l CNFLayout) Knobs() []string {
	var k []string
	add := func(c bool, s string) {
		if c {
			k = append(k, s)
		}
	}
	add(l.CommentsBefore > 0, "comments-before-header")
	add(l.CommentNoSpace, "comment-without-space")
	add(l.HeaderSpacing != 0, "header-spacing")
	multi, split := false, false
	for _, s := range l.LitSeps {
		if strings.Contains(s, "\n") {
			split = true
		}
		if s != " " {
			add(true, "odd-literal-separators")
		}
	}
	for _, s := range l.ClauseEnds {
		if !strings.Contains(s, "\n") {
			multi = true
		}
	}
	add(split, "clause-spans-lines")
	add(multi, "several-clauses-per-line")
	add(len(l.CommentsAfter) > 0, "comments-between-clauses")
	add(l.CRLF, "crlf")
	add(l.NoFinalNewline, "no-final-newline")
	// dedupe
	seen := map[string]bool{}
	var out []string
	for _, x := range k {
		if !seen[x] {
			seen[x] = true
			out = append(out, x)
		}
	}
	return out
}

// DIMACS renders a CNF.
func DIMACS(n int, cls [][]int, l CNFLayout) string {
	var sb strings.Builder
	cm := "c "
	if l.CommentNoSpace {
		cm = "c"
	}
	for i := 0; i < l.CommentsBefore; i++ {
		fmt.Fprintf(&sb, "%scomment %d\n", cm, i)
	}
	hs := " "
	switch l.HeaderSpacing {
	case 1:
		hs = "   "
	case 2:
		hs = "\t"
	}
	fmt.Fprintf(&sb, "p%scnf%s%d%s%d\n", hs, hs, n, hs, len(cls))
	after := map[int]bool{}
	for _, i := range l.CommentsAfter {
		after[i] = true
	}
	si, ei := 0, 0
	for i, c := range cls {
		for _, lit := range c {
			sb.WriteString(fmt.Sprint(lit))
			sep := " "
			if len(l.LitSeps) > 0 {
				sep = l.LitSeps[si%len(l.LitSeps)]
				si++
			}
			sb.WriteString(sep)
		}
		sb.WriteString("0")
		end := "\n"
		if len(l.ClauseEnds) > 0 {
			end = l.ClauseEnds[ei%len(l.ClauseEnds)]
			ei++
		}
		if i == len(cls)-1 && !strings.HasSuffix(end, "\n") {
			end = "\n"
		}
		sb.WriteString(end)
		if after[i] && strings.HasSuffix(end, "\n") {
			fmt.Fprintf(&sb, "%safter clause %d\n", cm, i)
		}
	}
	out := sb.String()
	if l.NoFinalNewline {
		out = strings.TrimRight(out, "\n")
	}
	if l.CRLF {
		out = strings.ReplaceAll(out, "\n", "\r\n")
	}
	return out
}

// Knobs lists the OPB knobs that differ from the conventional layout.
func (l OPBLayout) Knobs() []string {
	var k []string
	add := func(c bool, s string) {
		if c {
			k = append(k, s)
		}
	}
	add(l.Comments > 0, "comments")
	add(l.CommentFirst, "header-comment")
	add(l.NoPlus, "no-plus-sign")
	add(l.Tabs, "tabs")
	add(l.WideSpaces, "wide-spaces")
	add(l.CRLF, "crlf")
	add(l.NoFinalNL, "no-final-newline")
	add(l.BlankLines, "blank-lines")
	add(l.TightOperator, "tight-operator")
	add(l.TightSemi, "tight-semicolon")
	add(l.TightMin, "tight-min")
	add(l.TrailingBlank, "trailing-blank")
	return k
}

// Knobs lists the WCNF knobs that differ from the conventional layout.
func (l WCNFLayout) Knobs() []string {
	var k []string
	add := func(c bool, s string) {
		if c {
			k = append(k, s)
		}
	}
	add(l.Comments > 0, "comments")
	add(l.Tabs, "tabs")
	add(l.Wide, "wide-spaces")
	add(l.CRLF, "crlf")
	add(l.NoFinalNL, "no-final-newline")
	add(l.OverTop, "hard-weights-above-top")
	return k
}
