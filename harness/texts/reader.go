package texts

import (
	"hash/fnv"
	"io"
	"strings"
	"testing/iotest"
)

// The parsers take an io.Reader: how the bytes arrive is part of the input. ReaderFor hands a text over through one
// of several well-behaved readers, chosen by a hash of the text (so that a case determines its reader):
//
//	string    strings.Reader (everything at once, then 0, io.EOF)
//	one-byte  one byte per Read
//	half      half of the requested length per Read
//	data-eof  the last bytes are returned together with io.EOF (as gzip readers and HTTP bodies do)
//	chunks    Reads of 1..13 bytes, cyclically
var readerKinds = []string{"string", "string", "one-byte", "half", "data-eof", "data-eof", "chunks"}

// ReaderKind names the reader ReaderFor chooses for s.
func ReaderKind(s string) string {
	h := fnv.New32a()
	h.Write([]byte(s))
	return readerKinds[int(h.Sum32()%uint32(len(readerKinds)))]
}

type chunkReader struct {
	r io.Reader
	k int
}

func (c *chunkReader) Read(p []byte) (int, error) {
	c.k = c.k%13 + 1
	if len(p) > c.k {
		p = p[:c.k]
	}
	return c.r.Read(p)
}

// ReaderFor returns a reader delivering s.
func ReaderFor(s string) io.Reader {
	if len(s) > 1<<16 { // long texts: byte-wise delivery would only cost time
		if ReaderKind(s) == "data-eof" {
			return iotest.DataErrReader(strings.NewReader(s))
		}
		return strings.NewReader(s)
	}
	switch ReaderKind(s) {
	case "one-byte":
		return iotest.OneByteReader(strings.NewReader(s))
	case "half":
		return iotest.HalfReader(strings.NewReader(s))
	case "data-eof":
		return iotest.DataErrReader(strings.NewReader(s))
	case "chunks":
		return &chunkReader{r: strings.NewReader(s)}
	}
	return strings.NewReader(s)
}
