package texts

import (
	"fmt"
	"strings"
)

// WClause is a weighted clause; Weight 0 means hard.
type WClause struct {
	Lits   []int `json:"lits"`
	Weight int   `json:"weight"`
}

// WCNFLayout holds the layout knobs of the WCNF writer (zero value = conventional).
type WCNFLayout struct {
	Comments  int  `json:"comments,omitempty"` // "c ..." lines
	Tabs      bool `json:"tabs,omitempty"`
	Wide      bool `json:"wide,omitempty"`
	CRLF      bool `json:"crlf,omitempty"`
	NoFinalNL bool `json:"no_final_nl,omitempty"`
	// OverTop writes every other hard clause with a weight above top (the format and ParseWCNF read
	// "weight >= top" as hard); ignored for a top so large that the sum could overflow.
	OverTop bool `json:"over_top,omitempty"`
}

// WCNF renders a weighted partial MaxSAT instance in the classic format:
// "p wcnf V C [top]", then one clause per line "w l1 l2 ... 0"; a clause whose weight
// is top is hard. top == 0 omits the top weight (every clause is soft).
func WCNF(nVars, top int, cls []WClause, l WCNFLayout) string {
	sep := " "
	if l.Tabs {
		sep = "\t"
	} else if l.Wide {
		sep = "  "
	}
	nl := "\n"
	if l.CRLF {
		nl = "\r\n"
	}
	var lines []string
	comments := l.Comments
	if comments > 0 {
		lines = append(lines, "c generated")
		comments--
	}
	hdr := []string{"p", "wcnf", fmt.Sprint(nVars), fmt.Sprint(len(cls))}
	if top > 0 {
		hdr = append(hdr, fmt.Sprint(top))
	}
	lines = append(lines, strings.Join(hdr, sep))
	for i, c := range cls {
		if comments > 0 && i%2 == 1 {
			lines = append(lines, "c clause "+fmt.Sprint(i))
			comments--
		}
		w := c.Weight
		if w == 0 {
			w = top
			if l.OverTop && top < 1<<40 && i%2 == 0 {
				w = top + 1 + i%3*top
			}
		}
		fs := []string{fmt.Sprint(w)}
		for _, x := range c.Lits {
			fs = append(fs, fmt.Sprint(x))
		}
		fs = append(fs, "0")
		lines = append(lines, strings.Join(fs, sep))
	}
	out := strings.Join(lines, nl)
	if !l.NoFinalNL {
		out += nl
	}
	return out
}
