package texts

import (
	"verifharness/oracle"
)

// The bf text syntax (bf/doc.go):
//
//	formula ::= clause { ';' clause }      clause  ::= implies { '=' implies }
//	implies ::= or { '->' or }             or      ::= and { '|' and }
//	and     ::= not { '&' not }            not     ::= '^' not | atom
//	atom    ::= ident | '(' formula ')' | '{' ident { ',' ident } '}'
//
// with right-nested repetition of the same operator.
//
// Syntax trees use oracle.F with ops: var, not, unique and the binary ops
// semi (';', a conjunction), eq, implies, or, and. SemF gives the semantic formula.

var level = map[string]int{"semi": 0, "eq": 1, "implies": 2, "or": 3, "and": 4, "not": 5, "var": 6, "unique": 6}
var opTok = map[string]string{"semi": ";", "eq": "=", "implies": "->", "or": "|", "and": "&"}

// SemF converts a syntax tree into the formula it denotes.
func SemF(f *oracle.F) *oracle.F {
	g := &oracle.F{Op: f.Op, Name: f.Name}
	if f.Op == "semi" {
		g.Op = "and"
	}
	for _, k := range f.Kids {
		g.Kids = append(g.Kids, SemF(k))
	}
	return g
}

// RenderOpts are the free choices of a rendering; Extra(i) says whether redundant
// parentheses are put around the i-th rendered node; LooseLeft omits the parentheses
// around a left operand that is the same associative operator (&, |, ;, =).
type RenderOpts struct {
	Extra     func() bool
	LooseLeft func() bool
}

// Tokens renders a syntax tree as a token list.
func Tokens(f *oracle.F, o RenderOpts) []string {
	return render(f, 0, o)
}

func render(f *oracle.F, minLevel int, o RenderOpts) []string {
	var toks []string
	lv := level[f.Op]
	switch f.Op {
	case "var":
		toks = []string{f.Name}
	case "unique":
		toks = []string{"{"}
		for i, k := range f.Kids {
			if i > 0 {
				toks = append(toks, ",")
			}
			toks = append(toks, k.Name)
		}
		toks = append(toks, "}")
	case "not":
		toks = append([]string{"^"}, render(f.Kids[0], 5, o)...)
	default:
		leftMin := lv + 1
		l := f.Kids[0]
		// the four binary operators below are associative, so a left operand of the same operator
		// may legally be written without parentheses: the text then denotes an equivalent formula
		if l.Op == f.Op && f.Op != "implies" && o.LooseLeft != nil && o.LooseLeft() {
			leftMin = lv
		}
		toks = append(toks, render(l, leftMin, o)...)
		toks = append(toks, opTok[f.Op])
		toks = append(toks, render(f.Kids[1], lv, o)...)
	}
	if lv < minLevel || (o.Extra != nil && o.Extra()) {
		toks = append(append([]string{"("}, toks...), ")")
	}
	return toks
}

// WellFormed is the harness's own recogniser of the documented grammar over a token list
// (a trailing ';' at top level is accepted, as the parser documents by design).
func WellFormed(toks []string) bool {
	p := &rec{toks: toks}
	if !p.formula(true) {
		return false
	}
	return p.pos == len(p.toks)
}

type rec struct {
	toks []string
	pos  int
}

func (p *rec) peek() string {
	if p.pos < len(p.toks) {
		return p.toks[p.pos]
	}
	return ""
}

func (p *rec) formula(top bool) bool {
	if !p.level(1) {
		return false
	}
	for p.peek() == ";" {
		p.pos++
		if top && p.pos == len(p.toks) {
			return true // trailing ';'
		}
		if !p.level(1) {
			return false
		}
	}
	return true
}

var levelOps = map[int]string{1: "=", 2: "->", 3: "|", 4: "&"}

func (p *rec) level(l int) bool {
	if l == 5 {
		for p.peek() == "^" {
			p.pos++
		}
		return p.atom()
	}
	if !p.level(l + 1) {
		return false
	}
	for p.peek() == levelOps[l] {
		p.pos++
		if !p.level(l + 1) {
			return false
		}
	}
	return true
}

// IsIdent reports whether tok is an identifier of the pool shape (letter or _ first).
func IsIdent(tok string) bool {
	if tok == "" {
		return false
	}
	for i, r := range tok {
		letter := r == '_' || (r >= 'a' && r <= 'z') || (r >= 'A' && r <= 'Z')
		if !letter && (i == 0 || r < '0' || r > '9') {
			return false
		}
	}
	return true
}

func (p *rec) atom() bool {
	t := p.peek()
	switch {
	case t == "(":
		p.pos++
		if !p.formula(false) || p.peek() != ")" {
			return false
		}
		p.pos++
		return true
	case t == "{":
		p.pos++
		if !IsIdent(p.peek()) {
			return false
		}
		p.pos++
		for p.peek() == "," {
			p.pos++
			if !IsIdent(p.peek()) {
				return false
			}
			p.pos++
		}
		if p.peek() != "}" {
			return false
		}
		p.pos++
		return true
	case IsIdent(t):
		p.pos++
		return true
	}
	return false
}
