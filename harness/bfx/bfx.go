// Package bfx builds gophersat bf formulas from the harness's formula trees.
package bfx

import (
	"github.com/crillab/gophersat/bf"
	"verifharness/oracle"
)

// Build maps an oracle formula to the bf constructors. A tagged node is built once and the same
// bf.Formula value is used wherever a ref points to it, the way a caller reuses a sub-formula.
func Build(f *oracle.F) bf.Formula {
	return build(f, map[string]bf.Formula{})
}

func build(f *oracle.F, memo map[string]bf.Formula) (res bf.Formula) {
	if f.Op == "ref" {
		g, ok := memo[f.Name]
		if !ok {
			panic("bfx: ref to a node that was not built yet: " + f.Name)
		}
		return g
	}
	if f.Tag != "" {
		defer func() { memo[f.Tag] = res }()
	}
	Build := func(g *oracle.F) bf.Formula { return build(g, memo) }
	kids := func() []bf.Formula {
		out := make([]bf.Formula, len(f.Kids))
		for i, k := range f.Kids {
			out[i] = Build(k)
		}
		return out
	}
	switch f.Op {
	case "var":
		return bf.Var(f.Name)
	case "true":
		return bf.True
	case "false":
		return bf.False
	case "not":
		return bf.Not(Build(f.Kids[0]))
	case "and":
		return bf.And(kids()...)
	case "or":
		return bf.Or(kids()...)
	case "implies":
		return bf.Implies(Build(f.Kids[0]), Build(f.Kids[1]))
	case "eq":
		return bf.Eq(Build(f.Kids[0]), Build(f.Kids[1]))
	case "xor":
		return bf.Xor(Build(f.Kids[0]), Build(f.Kids[1]))
	case "unique":
		names := make([]string, len(f.Kids))
		for i, k := range f.Kids {
			names[i] = k.Name
		}
		return bf.Unique(names...)
	}
	panic("bfx: bad op " + f.Op)
}
