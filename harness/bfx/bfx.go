// Package bfx builds gophersat bf formulas from the harness's formula trees.
package bfx

import (
	"github.com/crillab/gophersat/bf"
	"verifharness/oracle"
)

// Build maps an oracle formula to the bf constructors.
func Build(f *oracle.F) bf.Formula {
	kids := func() []bf.Formula {
		out := make([]bf.Formula, len(f.Kids))
		for i, k := range f.Kids {
			out[i] = Build(k)
		}
		return out
	}
	switch f.Op {
	case "var":
		return bf.Var(f.Name)
	case "true":
		return bf.True
	case "false":
		return bf.False
	case "not":
		return bf.Not(Build(f.Kids[0]))
	case "and":
		return bf.And(kids()...)
	case "or":
		return bf.Or(kids()...)
	case "implies":
		return bf.Implies(Build(f.Kids[0]), Build(f.Kids[1]))
	case "eq":
		return bf.Eq(Build(f.Kids[0]), Build(f.Kids[1]))
	case "xor":
		return bf.Xor(Build(f.Kids[0]), Build(f.Kids[1]))
	case "unique":
		names := make([]string, len(f.Kids))
		for i, k := range f.Kids {
			names[i] = k.Name
		}
		return bf.Unique(names...)
	}
	panic("bfx: bad op " + f.Op)
}
