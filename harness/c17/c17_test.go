//go:build verif

// C17 — the formula text syntax is parsed with the documented precedence.
package c17

import (
	"fmt"
	"strings"
	"testing"

	"github.com/crillab/gophersat/bf"
	"pgregory.net/rapid"
	"verifharness/gen"
	"verifharness/oracle"
	"verifharness/texts"
	"verifharness/vf"
)

// Case is a token list with the whitespace put between (and around) the tokens.
type Case struct {
	Tree   *oracle.F `json:"tree,omitempty"` // syntax tree of the uncorrupted rendering
	Tokens []string  `json:"tokens"`
	Spaces []string  `json:"spaces"` // len(Tokens)+1 whitespace strings
	Kind   string    `json:"kind"`   // positive | negative
	How    string    `json:"how,omitempty"`
}

func (c Case) text() string {
	var sb strings.Builder
	for i, t := range c.Tokens {
		sb.WriteString(c.Spaces[i])
		sb.WriteString(t)
	}
	sb.WriteString(c.Spaces[len(c.Tokens)])
	return sb.String()
}

// identifier pool: Go-identifier shapes, including words that happen to be Go keywords (the syntax is not Go:
// "if", "else", "type" are ordinary variable names, inside and outside exactly-one groups)
var idents = []string{"a", "b", "c1", "d_x", "Ee", "f", "_g", "x2y", "if", "else", "type", "go"}

func adjacentMixedOps(toks []string) bool {
	// two different binary operators with no parenthesis between them at the same nesting depth
	type st struct{ last string }
	stack := []st{{}}
	for _, t := range toks {
		switch t {
		case "(":
			stack = append(stack, st{})
		case ")":
			if len(stack) > 1 {
				stack = stack[:len(stack)-1]
			}
		case ";", "=", "->", "|", "&":
			top := &stack[len(stack)-1]
			if top.last != "" && top.last != t {
				return true
			}
			top.last = t
		}
	}
	return false
}

func check(c Case, o *vf.Obs) error {
	txt := c.text()
	o.Class(c.Kind)
	o.Class("reader-" + texts.ReaderKind(txt))
	o.ClassIf(c.How != "" && c.Kind == "negative", "corruption-"+c.How)
	o.ClassIf(c.How != "" && c.Kind == "positive", c.How)
	o.ClassIf(strings.ContainsAny(txt, "\n\t"), "newline-or-tab")
	var f bf.Formula
	var err error
	perr := vf.Safely(func() error { f, err = bf.Parse(texts.ReaderFor(txt)); return nil })
	if perr != nil {
		return fmt.Errorf("Parse(%q): %v", txt, perr)
	}
	if c.Kind == "negative" {
		if texts.WellFormed(c.Tokens) {
			o.Exclude("corruption produced another well-formed text")
			return nil
		}
		o.Nontrivial()
		if err == nil {
			return fmt.Errorf("Parse(%q) accepted an ill-formed text (%s) and returned %v", txt, c.How, f)
		}
		if f != nil {
			return fmt.Errorf("Parse(%q) returned an error AND a formula %v", txt, f)
		}
		return nil
	}
	semiInParens := false
	depth := 0
	for _, t := range c.Tokens {
		switch t {
		case "(":
			depth++
		case ")":
			depth--
		case ";":
			if depth > 0 {
				semiInParens = true
			}
		}
	}
	o.ClassIf(semiInParens, "semi-inside-parens")
	o.ClassIf(len(c.Tokens) > 0 && c.Tokens[len(c.Tokens)-1] == ";", "trailing-semi")
	if adjacentMixedOps(c.Tokens) {
		o.Nontrivial()
	}
	if err != nil {
		return fmt.Errorf("Parse(%q) rejects a well-formed text: %v", txt, err)
	}
	if f == nil {
		return fmt.Errorf("Parse(%q) returned neither formula nor error", txt)
	}
	sem := texts.SemF(c.Tree)
	names := sem.Vars()
	o.ClassIf(len(txt) > 65536 && !strings.Contains(txt, "\n"), "one-line>64KB")
	for _, m := range assignments(len(names)) {
		env := oracle.EnvOf(names, m)
		var got bool
		if perr := vf.Safely(func() error { got = f.Eval(env); return nil }); perr != nil {
			return fmt.Errorf("Parse(%q) gives %v, whose Eval under %v fails: %v", txt, f, env, perr)
		}
		if want := sem.Eval(env); got != want {
			return fmt.Errorf("Parse(%q) gives %v, which is %v under %v; the text read with the documented priorities (%v) is %v", txt, f, got, env, sem, want)
		}
	}
	return nil
}

// assignments lists the assignments (bit i = i-th name) a parse result is compared under: all of them up to 14
// names; beyond that (at most 64 names) all-false, all-true, every single name true, every pair with one of the first 5,
// every single name false, and 300 fixed pseudo-random ones.
func assignments(n int) []uint64 {
	var out []uint64
	if n <= 14 {
		for m := uint64(0); m < 1<<uint(n); m++ {
			out = append(out, m)
		}
		return out
	}
	all := uint64(1)<<uint(n) - 1
	if n >= 64 {
		all = ^uint64(0)
	}
	out = append(out, 0, all)
	for i := 0; i < n; i++ {
		out = append(out, 1<<uint(i), all&^(1<<uint(i)))
	}
	for i := 0; i < 5 && i < n; i++ {
		for j := i + 1; j < n; j++ {
			out = append(out, 1<<uint(i)|1<<uint(j))
		}
	}
	x := uint64(0x2545f4914f6cdd1d)
	for i := 0; i < 300; i++ {
		x ^= x << 13
		x ^= x >> 7
		x ^= x << 17
		m := x & all
		if i%3 == 0 { // sparse ones: few names true
			x ^= x << 13
			x ^= x >> 7
			x ^= x << 17
			m &= x
			x ^= x << 13
			x ^= x >> 7
			x ^= x << 17
			m &= x
		}
		out = append(out, m)
	}
	return out
}

// genWide: exactly-one groups of 5..40 names (the translation of a group changes shape with its width) inside a small
// formula.
func genWide(t *rapid.T) Case {
	pool := append([]string{}, idents...)
	for i := 0; i < 40; i++ {
		pool = append(pool, fmt.Sprintf("v%d", i))
	}
	group := func() *oracle.F {
		k := gen.Uniform(t, 5, 40, "width")
		perm := rapid.Permutation(append([]string{}, pool...)).Draw(t, "names")
		f := &oracle.F{Op: "unique"}
		for _, n := range perm[:k] {
			f.Kids = append(f.Kids, oracle.V(n))
		}
		return f
	}
	leaf := func() *oracle.F { return oracle.V(pool[gen.Uniform(t, 0, len(pool)-1, "id")]) }
	var tree *oracle.F
	switch rapid.IntRange(0, 4).Draw(t, "shape") {
	case 0:
		tree = group()
	case 1:
		tree = &oracle.F{Op: "or", Kids: []*oracle.F{{Op: "not", Kids: []*oracle.F{leaf()}}, group()}}
	case 2:
		tree = &oracle.F{Op: "and", Kids: []*oracle.F{group(), {Op: "implies", Kids: []*oracle.F{leaf(), leaf()}}}}
	case 3:
		tree = &oracle.F{Op: "not", Kids: []*oracle.F{group()}}
	default:
		tree = &oracle.F{Op: "semi", Kids: []*oracle.F{group(), group()}}
	}
	toks := texts.Tokens(tree, texts.RenderOpts{})
	sp := spaces(t, len(toks)+1, rapid.Bool().Draw(t, "wildSpaces"))
	fixSpaces(toks, sp)
	return Case{Tree: tree, Tokens: toks, Spaces: sp, Kind: "positive", How: "wide-group"}
}

func genTree(t *rapid.T, budget *int, depth int) *oracle.F {
	*budget--
	if *budget <= 0 || depth > 5 || gen.Chance(t, 1, 5, "leaf") {
		if gen.Chance(t, 1, 6, "group") {
			k := rapid.IntRange(1, 4).Draw(t, "k")
			perm := rapid.Permutation(append([]string{}, idents...)).Draw(t, "names")
			f := &oracle.F{Op: "unique"}
			for _, n := range perm[:k] {
				f.Kids = append(f.Kids, oracle.V(n))
			}
			return f
		}
		return oracle.V(idents[gen.Uniform(t, 0, len(idents)-1, "id")])
	}
	op := rapid.SampledFrom([]string{"not", "and", "or", "implies", "eq", "semi", "and", "or"}).Draw(t, "op")
	if op == "not" {
		return &oracle.F{Op: op, Kids: []*oracle.F{genTree(t, budget, depth+1)}}
	}
	return &oracle.F{Op: op, Kids: []*oracle.F{genTree(t, budget, depth+1), genTree(t, budget, depth+1)}}
}

// genChain: flat chains of hundreds to thousands of operands joined by one operator (a conjunction of many
// clauses with ';' is the documented use of that operator), over a handful of variables.
func genChain(t *rapid.T) Case {
	op := rapid.SampledFrom([]string{"semi", "semi", "and", "or", "implies", "eq"}).Draw(t, "op")
	n := rapid.SampledFrom([]int{40, 200, 300, 600, 1500, 4000}).Draw(t, "n") + rapid.IntRange(0, 30).Draw(t, "plus")
	if op == "eq" {
		n = 8 + n%9 // bf.Eq(f, g) holds g twice and Eval visits both: a chain of '=' costs 2^n evaluations
	}
	vars := []string{"a", "b", "c1", "d_x"}
	longNames := op != "eq" && gen.Chance(t, 1, 3, "longNames")
	if longNames {
		// identifiers of 150..400 characters: with >= 400 operands on one line, that line is longer than 64 KB
		for i := range vars {
			vars[i] += strings.Repeat("x_", gen.Uniform(t, 75, 200, "idlen"))
		}
		if n < 450 {
			n += 450
		}
	}
	leaf := func() *oracle.F {
		f := oracle.V(vars[gen.Uniform(t, 0, len(vars)-1, "v")])
		if gen.Chance(t, 1, 3, "neg") {
			f = &oracle.F{Op: "not", Kids: []*oracle.F{f}}
		}
		return f
	}
	// right-nested, as the text will be read
	tree := leaf()
	for i := 1; i < n; i++ {
		tree = &oracle.F{Op: op, Kids: []*oracle.F{leaf(), tree}}
	}
	toks := texts.Tokens(tree, texts.RenderOpts{})
	sp := spaces(t, len(toks)+1, false)
	if !longNames && rapid.Bool().Draw(t, "newlines") {
		for i := range sp {
			if i > 0 && toks[i-1] == opTok(op) {
				sp[i] = "\n"
			}
		}
	}
	fixSpaces(toks, sp)
	return Case{Tree: tree, Tokens: toks, Spaces: sp, Kind: "positive", How: "chain-" + op}
}

func opTok(op string) string {
	return map[string]string{"semi": ";", "and": "&", "or": "|", "implies": "->", "eq": "="}[op]
}

func spaces(t *rapid.T, n int, wild bool) []string {
	out := make([]string, n)
	for i := range out {
		if !wild {
			if i > 0 && i < n-1 {
				out[i] = " "
			}
			continue
		}
		out[i] = rapid.SampledFrom([]string{"", "", " ", " ", "  ", "\t", "\n", " \n ", "\r\n"}).Draw(t, "ws")
	}
	return out
}

// needSep: two tokens that would fuse (or change meaning) without whitespace between them.
func fixSpaces(toks, sp []string) {
	for i := 1; i < len(toks); i++ {
		if sp[i] == "" && (texts.IsIdent(toks[i-1]) && texts.IsIdent(toks[i])) {
			sp[i] = " "
		}
	}
}

func genPositive(t *rapid.T) Case {
	budget := gen.Uniform(t, 1, 25, "size")
	tree := genTree(t, &budget, 0)
	toks := texts.Tokens(tree, texts.RenderOpts{
		Extra:     func() bool { return gen.Chance(t, 1, 6, "extraParens") },
		LooseLeft: func() bool { return rapid.Bool().Draw(t, "looseLeft") },
	})
	if gen.Chance(t, 1, 10, "trailingSemi") {
		toks = append(toks, ";")
	}
	sp := spaces(t, len(toks)+1, rapid.Bool().Draw(t, "wildSpaces"))
	fixSpaces(toks, sp)
	return Case{Tree: tree, Tokens: toks, Spaces: sp, Kind: "positive"}
}

func genNegative(t *rapid.T) Case {
	c := genPositive(t)
	c.Kind = "negative"
	toks := append([]string{}, c.Tokens...)
	how := rapid.SampledFrom([]string{"delete-operand", "delete-paren", "add-paren", "append-token", "double-operator", "empty", "empty-group", "group-trailing-comma", "delete-operator"}).Draw(t, "how")
	pick := func(pred func(string) bool) int {
		var idx []int
		for i, x := range toks {
			if pred(x) {
				idx = append(idx, i)
			}
		}
		if len(idx) == 0 {
			return -1
		}
		return idx[gen.Uniform(t, 0, len(idx)-1, "at")]
	}
	isOp := func(x string) bool { return x == ";" || x == "=" || x == "->" || x == "|" || x == "&" }
	del := func(i int) { toks = append(toks[:i:i], toks[i+1:]...) }
	ins := func(i int, x string) { toks = append(toks[:i:i], append([]string{x}, toks[i:]...)...) }
	switch how {
	case "delete-operand":
		if i := pick(texts.IsIdent); i >= 0 {
			del(i)
		}
	case "delete-paren":
		if i := pick(func(x string) bool { return x == "(" || x == ")" }); i >= 0 {
			del(i)
		} else {
			how = "add-paren"
			ins(gen.Uniform(t, 0, len(toks), "pos"), rapid.SampledFrom([]string{"(", ")"}).Draw(t, "paren"))
		}
	case "add-paren":
		ins(gen.Uniform(t, 0, len(toks), "pos"), rapid.SampledFrom([]string{"(", ")"}).Draw(t, "paren"))
	case "append-token":
		toks = append(toks, rapid.SampledFrom([]string{"a", ")", "^", "&", "{", "b", "("}).Draw(t, "tok"))
	case "double-operator":
		if i := pick(isOp); i >= 0 {
			ins(i, toks[i])
		} else {
			toks = append(toks, "&")
		}
	case "delete-operator":
		if i := pick(isOp); i >= 0 {
			del(i)
		} else {
			toks = append(toks, "|")
		}
	case "empty":
		toks = nil
	case "empty-group":
		ins(gen.Uniform(t, 0, len(toks), "pos"), "{")
		ins(gen.Uniform(t, 0, len(toks), "pos2"), "}")
		toks = []string{"{", "}"}
	case "group-trailing-comma":
		toks = []string{"{", "a", ",", "}"}
		if rapid.Bool().Draw(t, "prefix") {
			toks = append([]string{"b", "&"}, toks...)
		}
	}
	c.How = how
	c.Tokens = toks
	c.Tree = nil
	c.Spaces = spaces(t, len(toks)+1, false)
	fixSpaces(toks, c.Spaces)
	return c
}

var subPositive, subNegative vf.Sub[Case]

func FuzzParse(f *testing.F)         { vf.Fuzz(f, "C17", subPositive) }
func FuzzParseNegative(f *testing.F) { vf.Fuzz(f, "C17", subNegative) }

func init() {
	subPositive = vf.Sub[Case]{Name: "positive", Quick: 20000, Thorough: 120000, Gen: genPositive, Check: check, Floor: 0.3,
		Rule: "syntax trees (size <=25) over Go-identifier-shaped names, exactly-one groups {a, b} of 1..4 names, rendered with minimal or redundant parentheses at each node, right-nested operator chains (and, for the associative operators, unparenthesised left operands), ';' at top level and inside parentheses, optional trailing ';', random whitespace incl. tabs/newlines/CRLF between tokens; oracle = own evaluator of the tree under all assignments vs Formula.Eval of the parse result; non-trivial = two different binary operators adjacent without parentheses"}
	subNegative = vf.Sub[Case]{Name: "negative", Quick: 10000, Thorough: 80000, Gen: genNegative, Check: check, Floor: 0.5,
		Rule: "token-level corruptions of a valid rendering: operand deleted, operator deleted or doubled, parenthesis deleted or added, token appended, empty text, {}, {a,}; corruptions that the harness's own recogniser of the documented grammar still accepts are discarded (counted as excluded); asserted: error != nil, formula == nil, no panic; non-trivial = the corrupted text is ill-formed"}
	subChains := vf.Sub[Case]{Name: "long-chains", Quick: 60, Thorough: 600, Gen: genChain, Check: check, Floor: 0,
		Rule: "flat chains of 40..4000 (possibly negated) variables joined by one operator (';', '&', '|', '->'; '=' chains are kept under 17 operands because Formula.Eval of nested equivalences is exponential), one operand per line or on one line (a third of the chains use identifiers of 150..400 characters, so that the single line exceeds 64 KB); the parse result must be equivalent to the right-nested reading under all assignments of the 4 variables"}
	subWide := vf.Sub[Case]{Name: "wide-groups", Quick: 250, Thorough: 20000, Gen: genWide, Check: check, Floor: 0,
		Rule: "exactly-one groups of 5..40 names in braces, alone, negated, under | and &, or two of them joined by ';'; the parse result is compared with 'exactly one member true' under all assignments up to 14 names, beyond that under all-false, all-true, each single name true / false, pairs, and 300 fixed pseudo-random assignments"}
	vf.Register(subPositive, subNegative, subChains, subWide)
}

func TestMain(m *testing.M)   { vf.Main(m, "C17") }
func TestCorpus(t *testing.T) { vf.Corpus(t) }
func TestProp(t *testing.T)   { vf.RunAll(t) }
func TestReplay(t *testing.T) { vf.ReplayEnv(t) }
