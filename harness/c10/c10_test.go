//go:build verif

// C10 — solving under assumptions decides formula AND current assumptions.
package c10

import (
	"fmt"
	"testing"

	"github.com/crillab/gophersat/solver"
	"pgregory.net/rapid"
	"verifharness/gen"
	"verifharness/gs"
	"verifharness/oracle"
	"verifharness/vf"
)

type Case struct {
	N          int     `json:"n"`
	Clauses    [][]int `json:"clauses"`
	SolveFirst bool    `json:"solve_first,omitempty"` // a plain Solve before the first round
	Rounds     [][]int `json:"rounds"`                // assumption list of each round
	NbMax      int     `json:"nbmax,omitempty"`
	CP         bool    `json:"cp,omitempty"` // the cutting-planes strategy is switched on for the whole history
	// Front "card" / "pb": the base problem is Constrs (through ParseCardConstrs / ParsePBConstrs) plus Clauses given as
	// clause constraints; "" : Clauses through ParseSliceNb.
	Front   string   `json:"front,omitempty"`
	Constrs []gen.PC `json:"constrs,omitempty"`
	Entry   string   `json:"entry,omitempty"` // CNF bases: "" ParseSliceNb, "cnf" / "cnf-commented" ParseCNF of a DIMACS rendering
}

func check(c Case, o *vf.Obs) error {
	gs.Arm(c.NbMax, gs.DefaultStepLimit)
	defer gs.Arm(0, 0)
	var pb *solver.Problem
	base := oracle.CNFPred(c.Clauses)
	var sems []oracle.Constr
	if c.Front == "" {
		if c.Entry == "" {
			pb = solver.ParseSliceNb(oracle.CloneCNF(c.Clauses), c.N)
		} else {
			var err error
			if pb, err = gs.ParseCNFProblem(c.Entry, c.N, c.Clauses); err != nil {
				return fmt.Errorf("parse error on a well-formed DIMACS text: %v", err)
			}
			o.Class("base-entry-" + c.Entry)
		}
	} else {
		all := append([]gen.PC{}, c.Constrs...)
		for _, cl := range c.Clauses {
			all = append(all, gen.PC{Kind: "clause", Lits: cl})
		}
		sems = gen.Sems(all)
		if c.Front == "card" {
			pb = solver.ParseCardConstrs(gs.CardConstrsOf(all))
		} else {
			cs := gs.PBConstrsOf(all)
			cs = append(cs, solver.GtEq([]int{c.N}, []int{1}, 0)) // declares variable N (trivially true, dropped)
			pb = solver.ParsePBConstrs(cs)
		}
		base = func(m uint64) bool { return oracle.AllTrue(sems, m) }
		o.Class("base-" + c.Front + "-constraints")
		if pb.Status != solver.Unsat && pb.NbVars != c.N {
			return fmt.Errorf("%w: harness: the parsed problem has %d variables, expected %d", vf.ErrInconclusive, pb.NbVars, c.N)
		}
	}
	_, hasUnit, _, _ := gen.Shapes(c.Clauses)
	o.ClassIf(hasUnit, "base-has-unit-clause")
	o.ClassIf(len(pb.Units) > 0, "base-parse-facts")
	o.ClassIf(pb.Status != solver.Indet, "base-parse-decided")
	s := solver.New(pb)
	s.CuttingPlanes = c.CP
	o.ClassIf(c.CP, "cutting-planes")
	if c.SolveFirst {
		st := s.Solve()
		_, truth := oracle.AnyModel(c.N, base)
		if truth != (st == solver.Sat) {
			return fmt.Errorf("initial Solve = %v, satisfiable=%v", st, truth)
		}
	}
	var verdicts []bool
	afterUnsat := false
	conflicts := 0
	for r, as := range c.Rounds {
		o.ClassIf(len(as) == 0, "empty-assumptions")
		seen := map[int]bool{}
		for _, l := range as {
			o.ClassIf(seen[l], "repeated-assumption")
			o.ClassIf(seen[-l], "self-contradicting-assumptions")
			seen[l] = true
		}
		truth := false
		for m := uint64(0); m < 1<<uint(c.N); m++ {
			if !base(m) {
				continue
			}
			ok := true
			for _, l := range as {
				if !oracle.LitTrue(l, m) {
					ok = false
					break
				}
			}
			if ok {
				truth = true
				break
			}
		}
		lits := make([]solver.Lit, len(as))
		for i, l := range as {
			lits[i] = solver.IntToLit(int32(l))
		}
		ast := s.Assume(lits)
		if ast == solver.Unsat && truth {
			return fmt.Errorf("round %d: Assume(%v) = Unsat but problem AND assumptions is satisfiable", r, as)
		}
		st := s.Solve()
		if st != solver.Sat && st != solver.Unsat {
			return fmt.Errorf("round %d: Solve = %v", r, st)
		}
		if truth != (st == solver.Sat) {
			return fmt.Errorf("round %d: Solve = %v under assumptions %v, but problem AND these assumptions is satisfiable=%v (earlier rounds: %v)", r, st, as, truth, c.Rounds[:r])
		}
		if st == solver.Sat {
			model := s.Model()
			if len(model) != c.N {
				return fmt.Errorf("round %d: model has %d values, %d variables", r, len(model), c.N)
			}
			if i := oracle.ModelSatisfies(c.Clauses, model); i >= 0 {
				return fmt.Errorf("round %d: model %v violates clause #%d %v of the problem (assumptions %v)", r, model, i, c.Clauses[i], as)
			}
			m := oracle.MaskOf(model)
			if i := oracle.FirstFalse(sems, m); i >= 0 {
				return fmt.Errorf("round %d: model %v violates constraint #%d %v of the problem (assumptions %v)", r, model, i, sems[i], as)
			}
			for _, l := range as {
				if !oracle.LitTrue(l, m) {
					return fmt.Errorf("round %d: model %v violates assumption %d", r, model, l)
				}
			}
		}
		if afterUnsat {
			o.Class("round-after-unsat-round")
		}
		afterUnsat = afterUnsat || st == solver.Unsat
		verdicts = append(verdicts, st == solver.Sat)
		conflicts = s.Stats.NbConflicts
	}
	o.ClassIf(conflicts > 0, "conflicts>0")
	o.ClassIf(conflicts >= 10, "conflicts>=10")
	diff := false
	for i := 1; i < len(verdicts); i++ {
		if verdicts[i] != verdicts[0] {
			diff = true
		}
	}
	sawUnsatThenMore := false
	for i := 0; i+1 < len(verdicts); i++ {
		if !verdicts[i] {
			sawUnsatThenMore = true
		}
	}
	if len(verdicts) >= 2 && (diff || sawUnsatThenMore) {
		o.Nontrivial()
	}
	return nil
}

// genConstrBase: a base problem mixing clauses with cardinality or weighted constraints of 3..6 literals (degree >= 2,
// either polarity): an assumed literal is often true inside a constraint that then acts as a reason.
func genConstrBase(front string) func(t *rapid.T) Case {
	return func(t *rapid.T) Case {
		var c Case
		c.Front = front
		c.N = gen.Uniform(t, 5, 12, "n")
		for i, k := 0, gen.Uniform(t, 1, 5, "constrs"); i < k; i++ {
			ls := gen.DistinctLits(t, c.N, gen.Uniform(t, 3, min(6, c.N), "len"), "l")
			if front == "card" || rapid.Bool().Draw(t, "plainCard") {
				c.Constrs = append(c.Constrs, gen.PC{Kind: "atleast", Lits: ls, K: gen.Uniform(t, 2, max(2, len(ls)/2+1), "k")})
			} else {
				co := make([]int, len(ls))
				sum := 0
				for j := range co {
					co[j] = rapid.IntRange(1, 3).Draw(t, "co")
					sum += co[j]
				}
				c.Constrs = append(c.Constrs, gen.PC{Kind: "gteq", Lits: ls, Coefs: co, K: gen.Uniform(t, 2, max(2, sum/2+1), "k")})
			}
		}
		for i, k := 0, gen.Uniform(t, c.N/2, 2*c.N, "clauses"); i < k; i++ {
			c.Clauses = append(c.Clauses, gen.DistinctLits(t, c.N, gen.Uniform(t, 2, 3, "clen"), "c"))
		}
		if gen.Chance(t, 1, 4, "unit") {
			c.Clauses = append(c.Clauses, []int{gen.Lit(t, c.N, "u")})
		}
		if gen.Chance(t, 1, 3, "low") {
			c.NbMax = rapid.IntRange(2, 10).Draw(t, "tinyLimit")
		}
		c.SolveFirst = gen.Chance(t, 1, 4, "solveFirst")
		c.CP = gen.Chance(t, 1, 4, "cuttingPlanes")
		genRounds(t, &c)
		return c
	}
}

func min(a, b int) int {
	if a < b {
		return a
	}
	return b
}

func max(a, b int) int {
	if a > b {
		return a
	}
	return b
}

func genRounds(t *rapid.T, c *Case) {
	nr := rapid.IntRange(1, 6).Draw(t, "rounds")
	var prev []int
	for r := 0; r < nr; r++ {
		k := rapid.IntRange(0, 5).Draw(t, "k")
		var as []int
		for i := 0; i < k; i++ {
			switch rapid.IntRange(0, 9).Draw(t, "how") {
			case 0:
				if len(as) > 0 { // repeat or contradict an earlier literal of this round
					l := as[gen.Uniform(t, 0, len(as)-1, "w")]
					if gen.Chance(t, 1, 3, "contra") {
						l = -l
					}
					as = append(as, l)
					continue
				}
			case 1:
				if len(prev) > 0 { // contradict the previous round
					as = append(as, -prev[gen.Uniform(t, 0, len(prev)-1, "w")])
					continue
				}
			case 2:
				// contradict (or repeat) a unit clause of the problem, if any
				var units []int
				for _, cl := range c.Clauses {
					if len(cl) == 1 {
						units = append(units, cl[0])
					}
				}
				if len(units) > 0 {
					l := units[gen.Uniform(t, 0, len(units)-1, "w")]
					if rapid.Bool().Draw(t, "contraUnit") {
						l = -l
					}
					as = append(as, l)
					continue
				}
			}
			as = append(as, gen.Lit(t, c.N, "a"))
		}
		c.Rounds = append(c.Rounds, as)
		prev = as
	}
}

func genSmall(t *rapid.T) Case {
	var c Case
	if gen.Chance(t, 1, 4, "chain") {
		c.N, c.Clauses = gen.PropagationChain(t, 2, 10) // many parse-time facts for Assume to respect
	} else {
		c.N, c.Clauses = gen.SmallCNF(t, gen.CNFOpts{MinN: 1, MaxN: 10, MaxRatio: 3, MaxLen: 4, AllowDup: true, AllowUnit: true, UnusedVarSlack: true})
	}
	c.SolveFirst = gen.Chance(t, 1, 4, "solveFirst")
	c.CP = gen.Chance(t, 1, 4, "cuttingPlanes")
	c.Entry = rapid.SampledFrom([]string{"", "", "cnf", "cnf-commented"}).Draw(t, "entry")
	genRounds(t, &c)
	return c
}

// genHard: bases with enough conflicts that clauses learned under assumptions exist and are
// reused by later rounds (threshold 3-SAT at n=12, parity systems), sometimes with unit clauses.
func genHard(t *rapid.T) Case {
	var c Case
	switch rapid.IntRange(0, 2).Draw(t, "family") {
	case 0:
		c.N = gen.Uniform(t, 13, 16, "n")
		c.Clauses = gen.XorCNF(t, c.N, gen.Uniform(t, c.N-1, c.N+3, "m"))
	case 1:
		c.N, c.Clauses = gen.Pigeonhole(t, rapid.SampledFrom([]int{3, 4}).Draw(t, "holes"), gen.Chance(t, 1, 2, "drop"))
	default:
		c.N = gen.Uniform(t, 12, 16, "n")
		c.Clauses = gen.KSAT(t, c.N, c.N*gen.Uniform(t, 40, 46, "ratio")/10, 3)
	}
	if gen.Chance(t, 1, 3, "unit") {
		c.Clauses = append(c.Clauses, []int{gen.Lit(t, c.N, "u")})
	}
	if gen.Chance(t, 1, 2, "low") {
		c.NbMax = c.N + 1
		if rapid.Bool().Draw(t, "tiny") {
			c.NbMax = rapid.IntRange(2, 10).Draw(t, "tinyLimit")
		}
	}
	c.SolveFirst = gen.Chance(t, 1, 4, "solveFirst")
	c.CP = gen.Chance(t, 1, 4, "cuttingPlanes")
	c.Entry = rapid.SampledFrom([]string{"", "", "cnf", "cnf-commented"}).Draw(t, "entry")
	genRounds(t, &c)
	return c
}

// ---- relaxed pigeonhole: rounds large enough for restarts, truth known by construction

// PHPCase: PHP(holes+1, holes) where every clause j carries a relaxation literal r_j (as MUS extraction does).
// Each round assumes -r_j for every clause but those of Relax[round], for which r_j is assumed. The
// problem with all clauses enforced is unsatisfiable; relaxing any single clause makes it satisfiable
// (a pigeon may stay out, or two pigeons may share a hole): the truth of each round is known by construction.
type PHPCase struct {
	Holes int     `json:"holes"`
	Relax [][]int `json:"relax"` // per round: indexes of the relaxed clauses
	NbMax int     `json:"nbmax,omitempty"`
}

func phpClauses(holes int) [][]int {
	pigeons := holes + 1
	v := func(p, h int) int { return p*holes + h + 1 }
	var cls [][]int
	for p := 0; p < pigeons; p++ {
		var c []int
		for h := 0; h < holes; h++ {
			c = append(c, v(p, h))
		}
		cls = append(cls, c)
	}
	for h := 0; h < holes; h++ {
		for p := 0; p < pigeons; p++ {
			for q := p + 1; q < pigeons; q++ {
				cls = append(cls, []int{-v(p, h), -v(q, h)})
			}
		}
	}
	return cls
}

func checkPHP(c PHPCase, o *vf.Obs) error {
	gs.Arm(c.NbMax, 50_000_000)
	defer gs.Arm(0, 0)
	base := phpClauses(c.Holes)
	n := (c.Holes + 1) * c.Holes
	relaxed := oracle.CloneCNF(base)
	for j := range relaxed {
		relaxed[j] = append(relaxed[j], n+j+1)
	}
	s := solver.New(solver.ParseSliceNb(oracle.CloneCNF(relaxed), n+len(base)))
	o.Class(fmt.Sprintf("holes-%d", c.Holes))
	sawBoth := [2]bool{}
	for r, rel := range c.Relax {
		isRel := map[int]bool{}
		for _, j := range rel {
			isRel[j] = true
		}
		var as []solver.Lit
		for j := range base {
			l := -(n + j + 1)
			if isRel[j] {
				l = -l
			}
			as = append(as, solver.IntToLit(int32(l)))
		}
		truth := len(rel) > 0
		if ast := s.Assume(as); ast == solver.Unsat && truth {
			return fmt.Errorf("round %d: Assume = Unsat although clause(s) %v are relaxed (satisfiable by construction)", r, rel)
		}
		st := s.Solve()
		if (st == solver.Sat) != truth {
			return fmt.Errorf("round %d: Solve = %v with relaxed clauses %v; pigeonhole with %d holes is satisfiable iff a clause is relaxed", r, st, rel, c.Holes)
		}
		sawBoth[map[bool]int{false: 0, true: 1}[truth]] = true
		if st == solver.Sat {
			model := s.Model()
			m := oracle.MaskOf(model)
			if len(model) != n+len(base) {
				return fmt.Errorf("round %d: model has %d values, %d variables", r, len(model), n+len(base))
			}
			for j, cl := range relaxed {
				want := isRel[j]
				if got := model[n+j]; got != want {
					return fmt.Errorf("round %d: model gives relaxation literal of clause %d the value %v, it was assumed %v", r, j, got, want)
				}
				_ = m
				ok := false
				for _, l := range cl {
					v := l
					if v < 0 {
						v = -v
					}
					if (l > 0) == model[v-1] {
						ok = true
					}
				}
				if !ok {
					return fmt.Errorf("round %d: model falsifies clause %d %v", r, j, cl)
				}
			}
		}
	}
	o.ClassIf(s.Stats.NbRestarts > 0, "restart>0")
	o.ClassIf(s.Stats.NbConflicts >= 100, "conflicts>=100")
	if sawBoth[0] && sawBoth[1] {
		o.Nontrivial()
	}
	return nil
}

func genPHP(t *rapid.T) PHPCase {
	c := PHPCase{Holes: rapid.SampledFrom([]int{5, 6, 6, 6}).Draw(t, "holes")}
	nc := len(phpClauses(c.Holes))
	for r, k := 0, rapid.IntRange(2, 5).Draw(t, "rounds"); r < k; r++ {
		var rel []int
		if !gen.Chance(t, 2, 5, "none") {
			for i, m := 0, rapid.IntRange(1, 2).Draw(t, "nrel"); i < m; i++ {
				rel = append(rel, gen.Uniform(t, 0, nc-1, "j"))
			}
		}
		c.Relax = append(c.Relax, rel)
	}
	if rapid.Bool().Draw(t, "low") {
		c.NbMax = rapid.IntRange(20, 200).Draw(t, "limit")
	}
	return c
}

func init() {
	vf.Register(vf.Sub[PHPCase]{Name: "relaxed-pigeonhole", Quick: 25, Thorough: 300, Gen: genPHP, Check: checkPHP, Floor: 0.3,
		Rule: "pigeonhole PHP(6,5) / PHP(7,6) whose clauses each carry a relaxation literal (the way MUS extraction uses Assume); 2..5 rounds, each assuming every relaxation literal false except those of 0..2 drawn clauses; truth by construction: satisfiable iff a clause is relaxed; an Unsat round takes hundreds of conflicts, with restarts and clause-database reductions inside the round; Sat models are checked against every relaxed clause and every assumption; non-trivial = rounds of both verdicts"})
}

func init() {
	tail := "; 1..6 rounds, each Assume(list of 0..5 literals: random, repeated, contradicting each other, contradicting the previous round, contradicting/repeating a unit clause) then Solve; oracle per round = truth table of base AND this round's assumptions only; non-trivial = >=2 rounds with different verdicts or a round after an Unsat round"
	vf.Register(
		vf.Sub[Case]{Name: "card-base", Quick: 8000, Thorough: 50000, Gen: genConstrBase("card"), Check: check, Floor: 0.15,
			Rule: "base = 1..5 cardinality constraints of 3..6 literals (degree >= 2, either polarity) plus n/2..2n clauses of 2..3 literals over 5..12 variables, through ParseCardConstrs" + tail},
		vf.Sub[Case]{Name: "pb-base", Quick: 8000, Thorough: 50000, Gen: genConstrBase("pb"), Check: check, Floor: 0.15,
			Rule: "the same with weighted constraints (coefficients 1..3) among them, through ParsePBConstrs" + tail},
		vf.Sub[Case]{Name: "small", Quick: 15000, Thorough: 100000, Gen: genSmall, Check: check, Floor: 0.2,
			Rule: "base CNF n<=10 with unit clauses, duplicate literals, unused variables" + tail},
		vf.Sub[Case]{Name: "conflict-rich", Quick: 3000, Thorough: 40000, Gen: genHard, Check: check, Floor: 0.3,
			Classes: map[string]float64{"conflicts>=10": 0.12},
			Rule:    "base = threshold 3-SAT at n=12..16, parity systems at n=13..16 or pigeonhole PHP(4,3)/PHP(5,4) with or without a dropped pigeon (clauses are learned under assumptions), lowered learned-clause limit in half of the cases" + tail},
	)
}

func TestMain(m *testing.M)   { vf.Main(m, "C10") }
func TestCorpus(t *testing.T) { vf.Corpus(t) }
func TestProp(t *testing.T)   { vf.RunAll(t) }
func TestReplay(t *testing.T) { vf.ReplayEnv(t) }

// native fuzz targets (thorough tier): the fuzzer mutates the byte stream that rapid decodes into generator choices
func FuzzAssume(f *testing.F) { vf.FuzzNamed(f, "C10", "small") }
