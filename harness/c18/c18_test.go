//go:build verif

// C18 — printed problems read back as equivalent problems.
package c18

import (
	"fmt"
	"reflect"
	"strings"
	"testing"

	"github.com/crillab/gophersat/explain"
	"github.com/crillab/gophersat/solver"
	"pgregory.net/rapid"
	"verifharness/gen"
	"verifharness/gs"
	"verifharness/oracle"
	"verifharness/texts"
	"verifharness/vf"
)

type Case struct {
	Front   string       `json:"front"` // slicenb | cnf | card | pb | opb
	N       int          `json:"n"`
	Clauses [][]int      `json:"clauses,omitempty"`
	Constrs []gen.PC     `json:"constrs,omitempty"`
	Cost    *oracle.Cost `json:"cost,omitempty"`
	Printer string       `json:"printer"`          // cnf | pbstring | solver-pbstring | explain-cnf
	Steps   []Step       `json:"steps,omitempty"`  // solver-pbstring: what happens before printing
	Probes  []uint64     `json:"probes,omitempty"` // assignments whose cost is compared
	// SolveFirst: a solver is made from the problem and run (Solve, or Optimal when there is a cost function)
	// before the *problem* is printed: printing must not depend on what a solver did with the problem.
	SolveFirst bool `json:"solve_first,omitempty"`
	// Sibling: a second solver is made from the same problem and given this clause before the first one is printed.
	Sibling []int `json:"sibling,omitempty"`
}

type Step struct {
	Kind string `json:"kind"` // solve | clause
	Lits []int  `json:"lits,omitempty"`
}

func sems(c Case) []oracle.Constr {
	if c.Front == "slicenb" || c.Front == "cnf" {
		var s []oracle.Constr
		for _, cl := range c.Clauses {
			s = append(s, oracle.Clause(cl...))
		}
		return s
	}
	return gen.Sems(c.Constrs)
}

func build(c Case) (*solver.Problem, error) {
	var pb *solver.Problem
	switch c.Front {
	case "slicenb", "cnf":
		p, err := gs.ParseCNFProblem(c.Front, c.N, c.Clauses)
		if err != nil {
			return nil, err
		}
		pb = p
	case "card":
		pb = solver.ParseCardConstrs(gs.CardConstrsOf(c.Constrs))
	case "pb":
		cs := gs.PBConstrsOf(c.Constrs)
		cs = append(cs, solver.GtEq([]int{c.N}, []int{1}, 0))
		pb = solver.ParsePBConstrs(cs)
	case "opb":
		return solver.ParseOPB(strings.NewReader(texts.OPB(c.Cost, gen.Sems(c.Constrs), texts.OPBLayout{})))
	}
	if c.Cost != nil && pb.Status != solver.Unsat {
		var ls []solver.Lit
		var ws []int
		for i, l := range c.Cost.Lits {
			v := l
			if v < 0 {
				v = -v
			}
			if v <= pb.NbVars {
				ls = append(ls, solver.IntToLit(int32(l)))
				ws = append(ws, c.Cost.W[i])
			}
		}
		if len(ls) > 0 {
			pb.SetCostFunc(ls, ws)
		}
	}
	return pb, nil
}

func checkExplain(c Case, o *vf.Obs) error {
	pb, err := explain.ParseCNF(strings.NewReader(gs.Dimacs(c.N, c.Clauses)))
	if err != nil {
		return fmt.Errorf("explain.ParseCNF: %v", err)
	}
	txt := pb.CNF()
	n, cls, err := texts.StrictDIMACS(txt)
	if err != nil {
		return fmt.Errorf("explain.Problem.CNF() is not well-formed DIMACS: %v\n--- text ---\n%s", err, txt)
	}
	if n != c.N || len(cls) != len(c.Clauses) {
		return fmt.Errorf("explain.Problem.CNF() has %d variables and %d clauses, the problem %d and %d\n--- text ---\n%s", n, len(cls), c.N, len(c.Clauses), txt)
	}
	for i := range cls {
		if len(cls[i]) != len(c.Clauses[i]) || len(cls[i]) > 0 && !reflect.DeepEqual(cls[i], c.Clauses[i]) {
			return fmt.Errorf("explain.Problem.CNF(): clause #%d printed as %v, is %v", i, cls[i], c.Clauses[i])
		}
	}
	pb2, err := explain.ParseCNF(texts.ReaderFor(txt))
	if err != nil {
		return fmt.Errorf("explain.ParseCNF cannot read back explain.Problem.CNF(): %v\n--- text ---\n%s", err, txt)
	}
	if pb2.NbVars != pb.NbVars || pb2.NbClauses != pb.NbClauses || len(pb2.Clauses) != len(pb.Clauses) {
		return fmt.Errorf("explain round trip changed the problem: %d/%d vars, %d/%d clauses", pb.NbVars, pb2.NbVars, pb.NbClauses, pb2.NbClauses)
	}
	if len(c.Clauses) >= 2 {
		o.Nontrivial()
	}
	return nil
}

func check(c Case, o *vf.Obs) error {
	gs.Arm(0, gs.DefaultStepLimit)
	defer gs.Arm(0, 0)
	o.Class("front-" + c.Front)
	o.Class("printer-" + c.Printer)
	if c.Printer == "explain-cnf" {
		return checkExplain(c, o)
	}
	conj := sems(c)
	pb, err := build(c)
	if err != nil {
		return fmt.Errorf("parse error: %v", err)
	}
	o.ClassIf(pb.Status == solver.Unsat, "parse-unsat")
	o.ClassIf(pb.Status == solver.Sat, "parse-sat")
	o.ClassIf(len(pb.Units) > 0, "has-units")
	o.ClassIf(pb.Optim(), "with-cost")
	n := c.N
	if mv := oracle.MaxVarConstrs(conj); mv > n {
		n = mv
	}
	var txt string
	optimised := false // the solver printed has run an optimisation: it may hold bounds on the cost besides the problem
	if c.SolveFirst && c.Printer != "solver-pbstring" {
		o.Class("problem-printed-after-a-solver-used-it")
		used := solver.New(pb)
		if pb.Optim() {
			used.Optimal(nil, nil)
		} else {
			used.Solve()
		}
	}
	switch c.Printer {
	case "cnf":
		txt = pb.CNF()
	case "pbstring":
		txt = pb.PBString()
	case "solver-pbstring":
		s := solver.New(pb)
		var sibling *solver.Solver
		if len(c.Sibling) > 0 && pb.Status != solver.Unsat {
			o.Class("sibling-solver")
			sibling = solver.New(pb)
		}
		for _, st := range c.Steps {
			if st.Kind == "solve" {
				s.Solve()
				continue
			}
			if st.Kind == "minimize" || st.Kind == "optimal" {
				// an optimisation adds bound constraints to the solver: it then holds the problem plus those bounds
				if pb.Optim() && pb.Status != solver.Unsat {
					if st.Kind == "minimize" {
						s.Minimize()
					} else {
						s.Optimal(nil, nil)
					}
					optimised = true
					o.Class("printed-after-an-optimisation")
				}
				continue
			}
			ls := make([]solver.Lit, len(st.Lits))
			for i, l := range st.Lits {
				ls[i] = solver.IntToLit(int32(l))
			}
			s.AppendClause(solver.NewClause(ls))
			conj = append(conj, oracle.Clause(st.Lits...))
			if mv := oracle.MaxVar([][]int{st.Lits}); mv > n {
				n = mv
			}
		}
		if sibling != nil {
			ls := make([]solver.Lit, len(c.Sibling))
			for i, l := range c.Sibling {
				ls[i] = solver.IntToLit(int32(l))
			}
			sibling.AppendClause(solver.NewClause(ls))
		}
		txt = s.PBString()
	}
	if (len(pb.Units) > 0 && len(pb.Clauses) > 0) || pb.Optim() {
		o.Nontrivial()
	}
	want := oracle.Models(n, func(m uint64) bool { return oracle.AllTrue(conj, m) })
	var pb2 *solver.Problem
	if c.Printer == "cnf" {
		if _, _, err := texts.StrictDIMACS(txt); err != nil {
			return fmt.Errorf("Problem.CNF() is not well-formed DIMACS: %v\n--- text ---\n%s", err, txt)
		}
		pb2, err = solver.ParseCNF(texts.ReaderFor(txt))
	} else {
		if err := texts.StrictOPB(txt); err != nil {
			return fmt.Errorf("%s is not well-formed OPB: %v\n--- text ---\n%s", c.Printer, err, txt)
		}
		pb2, err = solver.ParseOPB(texts.ReaderFor(txt))
	}
	if err != nil {
		return fmt.Errorf("the rendering (%s) cannot be parsed back: %v\n--- text ---\n%s", c.Printer, err, txt)
	}
	if pb2.NbVars > n {
		return fmt.Errorf("the rendering (%s) read back has %d variables, the problem has %d\n--- text ---\n%s", c.Printer, pb2.NbVars, n, txt)
	}
	got := oracle.Models(n, gs.ProblemPred(pb2)) // variables the text does not mention are free
	if optimised {
		// the bounds an optimisation added may exclude models, never admit new ones
		isModel := map[uint64]bool{}
		for _, m := range want {
			isModel[m] = true
		}
		for _, m := range got {
			if !isModel[m] {
				return fmt.Errorf("the rendering (%s, after an optimisation) read back accepts %0*b, which is not a model of the problem\n--- text ---\n%s", c.Printer, n, m, txt)
			}
		}
		want = got
	}
	if !reflect.DeepEqual(got, want) {
		return fmt.Errorf("the rendering (%s) read back has %d models over %d variables, the problem has %d\n--- text ---\n%s", c.Printer, len(got), n, len(want), txt)
	}
	// cost of each probed model, through pinned re-parsed texts
	// (a problem without model has no cost to preserve: nothing is asked of the objective then)
	if c.Printer != "cnf" && pb.Optim() && len(want) > 0 {
		if !pb2.Optim() {
			return fmt.Errorf("the rendering (%s) lost the cost function\n--- text ---\n%s", c.Printer, txt)
		}
		costOf := func(m uint64) int {
			s := 0
			for i, l := range c.Cost.Lits {
				v := l
				if v < 0 {
					v = -v
				}
				if (c.Front == "opb" || v <= pb.NbVars) && oracle.LitTrue(l, m) {
					s += c.Cost.W[i]
				}
			}
			return s
		}
		isModel := map[uint64]bool{}
		for _, m := range want {
			isModel[m] = true
		}
		for _, m := range c.Probes {
			m &= 1<<uint(n) - 1
			var sb strings.Builder
			sb.WriteString(strings.TrimRight(txt, "\n"))
			sb.WriteString("\n")
			for v := 1; v <= n; v++ {
				if oracle.LitTrue(v, m) {
					fmt.Fprintf(&sb, "+1 x%d >= 1 ;\n", v)
				} else {
					fmt.Fprintf(&sb, "+1 ~x%d >= 1 ;\n", v)
				}
			}
			ppb, err := solver.ParseOPB(strings.NewReader(sb.String()))
			if err != nil {
				return fmt.Errorf("pinned rendering cannot be parsed: %v\n%s", err, sb.String())
			}
			r := solver.New(ppb).Optimal(nil, nil)
			if isModel[m] {
				if r.Status != solver.Sat || r.Weight != costOf(m) {
					return fmt.Errorf("cost of the model %0*b: the rendering read back gives (%v, %d), the problem's cost function gives %d\n--- text ---\n%s", n, m, r.Status, r.Weight, costOf(m), txt)
				}
			} else if r.Status != solver.Unsat {
				return fmt.Errorf("non-model %0*b accepted by the rendering read back\n--- text ---\n%s", n, m, txt)
			}
		}
	}
	return nil
}

func genCase(t *rapid.T) Case {
	var c Case
	c.Printer = rapid.SampledFrom([]string{"cnf", "pbstring", "pbstring", "solver-pbstring", "explain-cnf"}).Draw(t, "printer")
	switch c.Printer {
	case "cnf":
		c.Front = rapid.SampledFrom([]string{"slicenb", "cnf"}).Draw(t, "front")
	case "explain-cnf":
		c.Front = "cnf"
	default:
		c.Front = rapid.SampledFrom([]string{"slicenb", "cnf", "card", "pb", "opb"}).Draw(t, "front")
	}
	switch c.Front {
	case "slicenb", "cnf":
		c.N, c.Clauses = gen.SmallCNF(t, gen.CNFOpts{MinN: 1, MaxN: 8, MaxRatio: 2, MaxLen: 4, AllowEmpty: c.Printer != "explain-cnf" || true, AllowDup: true, AllowUnit: true, UnusedVarSlack: true})
	default:
		c.N, c.Constrs = gen.PBConstrs(t, gen.PBOpts{MinN: 1, MaxN: 8, MaxConstrs: 5, MaxArity: 5, Card: c.Front == "card"})
	}
	if c.Printer != "cnf" && c.Printer != "explain-cnf" && gen.Chance(t, 1, 2, "cost") {
		cf := gen.CostFunc(t, c.N, c.Front == "opb")
		if cf.W == nil {
			cf.W = make([]int, len(cf.Lits))
			for i := range cf.W {
				cf.W[i] = 1
			}
		}
		c.Cost = &cf
		for i, k := 0, rapid.IntRange(1, 3).Draw(t, "probes"); i < k; i++ {
			c.Probes = append(c.Probes, uint64(gen.Uniform(t, 0, 255, "probe")))
		}
	}
	c.SolveFirst = gen.Chance(t, 1, 3, "solveFirst")
	// (no sibling solver is generated: solver.New takes ownership of the problem's Model array and Clause objects,
	// so two solvers made from one Problem share their bindings on the unchanged tree - see DESIGN 0.5, decision 18)
	if c.Printer == "solver-pbstring" {
		for i, k := 0, rapid.IntRange(0, 3).Draw(t, "steps"); i < k; i++ {
			if c.Cost != nil && gen.Chance(t, 1, 3, "optimise") {
				c.Steps = append(c.Steps, Step{Kind: rapid.SampledFrom([]string{"minimize", "optimal"}).Draw(t, "entry")})
			} else if rapid.Bool().Draw(t, "isSolve") {
				c.Steps = append(c.Steps, Step{Kind: "solve"})
			} else {
				c.Steps = append(c.Steps, Step{Kind: "clause", Lits: gen.DistinctLits(t, c.N, rapid.IntRange(1, 3).Draw(t, "len"), "l")})
			}
		}
	}
	return c
}

func init() {
	vf.Register(vf.Sub[Case]{Name: "roundtrip", Quick: 20000, Thorough: 100000, Gen: genCase, Check: check, Floor: 0.25,
		Rule: "problems from ParseSliceNb / ParseCNF / ParseCardConstrs / ParsePBConstrs / ParseOPB (n<=8, odd clause shapes, trivially true/false constraints, parse-time Sat and Unsat), with or without cost function; printers: Problem.CNF() (propositional problems), Problem.PBString(), Solver.PBString() after 0..3 Solve/AppendClause/Minimize/Optimal steps (after an optimisation the solver also holds bounds on the cost: the models read back must then be models of the problem, with their cost), explain.Problem.CNF(); in a third of the cases the problem is printed after a solver made from it has solved / optimised it; each text must satisfy the harness's strict recogniser of its format, parse back without error, and the re-parsed problem (evaluated without solving, unmentioned variables free) must have exactly the original models over the original variables; costs compared on up to 3 drawn assignments by pinning them with unit constraints in the re-parsed text; non-trivial = rendering with units and non-unit constraints, or with a cost function"})
}

// HugeCase: one cardinality constraint over N variables (N beyond 100 000), printed on a single line of more than a
// megabyte by PBString, plus a few clauses.
type HugeCase struct {
	N        int `json:"n"`
	AtLeast  int `json:"at_least"`
	NegEvery int `json:"neg_every"`
}

func genHuge(t *rapid.T) HugeCase {
	n := gen.Uniform(t, 100_000, 160_000, "n")
	return HugeCase{N: n, AtLeast: n/2 + gen.Uniform(t, 0, n/8, "slack"), NegEvery: gen.Uniform(t, 2, 5, "negEvery")}
}

func checkHuge(c HugeCase, o *vf.Obs) error {
	lits := make([]int, c.N)
	for i := range lits {
		lits[i] = i + 1
		if (i+1)%c.NegEvery == 0 {
			lits[i] = -(i + 1)
		}
	}
	holds := func(m []bool) bool {
		cnt := 0
		for _, l := range lits {
			if (l > 0) == m[abs(l)-1] {
				cnt++
			}
		}
		return cnt >= c.AtLeast
	}
	pb := solver.ParseCardConstrs([]solver.CardConstr{{Lits: append([]int{}, lits...), AtLeast: c.AtLeast}})
	txt := pb.PBString()
	longest := 0
	for _, l := range strings.Split(txt, "\n") {
		if len(l) > longest {
			longest = len(l)
		}
	}
	o.ClassIf(longest > 1<<20, "line>1MiB")
	if longest > 1<<20 {
		o.Nontrivial()
	}
	pb2, err := solver.ParseOPB(texts.ReaderFor(txt))
	if err != nil {
		return fmt.Errorf("PBString of a cardinality constraint over %d variables (longest line %d bytes) cannot be read back: %v", c.N, longest, err)
	}
	if pb2.NbVars != c.N {
		return fmt.Errorf("re-read problem has %d variables, the printed one %d", pb2.NbVars, c.N)
	}
	s := solver.New(pb2)
	if st := s.Solve(); st != solver.Sat {
		return fmt.Errorf("re-read problem: Solve = %v, the printed problem is satisfiable", st)
	}
	if m := s.Model(); len(m) != c.N || !holds(m) {
		return fmt.Errorf("a model of the re-read problem does not satisfy the printed constraint (at least %d of %d literals)", c.AtLeast, c.N)
	}
	return nil
}

func abs(x int) int {
	if x < 0 {
		return -x
	}
	return x
}

func init() {
	vf.Register(vf.Sub[HugeCase]{Name: "huge-constraint", Quick: 1, Thorough: 12, Gen: genHuge, Check: checkHuge, Floor: 0.9,
		Rule: "one cardinality constraint 'at least N/2..5N/8 of N literals', N in 100 000..160 000, every 2nd..5th literal negated, through ParseCardConstrs; Problem.PBString() prints it on one line of more than a megabyte; the text must be read back by ParseOPB with the same number of variables, and a model of the re-read problem (the solver's default phase alone falsifies the constraint) must satisfy the printed constraint; non-trivial = a printed line of more than 1 MiB"})
}

func TestMain(m *testing.M)   { vf.Main(m, "C18") }
func TestCorpus(t *testing.T) { vf.Corpus(t) }
func TestProp(t *testing.T)   { vf.RunAll(t) }
func TestReplay(t *testing.T) { vf.ReplayEnv(t) }

// native fuzz targets (thorough tier): the fuzzer mutates the byte stream that rapid decodes into generator choices
func FuzzRoundtrip(f *testing.F) { vf.FuzzNamed(f, "C18", "roundtrip") }
